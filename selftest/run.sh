#!/bin/bash
# Self-test of the verification machinery (run after every engine change):
#  1. every claimed check must be quiet on the unchanged tree;
#  2. every mutation in selftest/mutations/<PROP>_<name>.patch must make that property's
#     check exit 1 and mention the obligation in <PROP>_<name>.expect (must-fail corpus);
#  3. every harmless edit in selftest/harmless/<PROP>_<name>.patch must leave it quiet.
# Patches are applied to /repo's working tree and reverted straight afterwards.
# usage: selftest/run.sh [PROP ...]
cd "$(dirname "$0")/.."
REPO="${VERIF_REPO:-/repo}"
export VERIF_REPO="$REPO"
props="$@"
if [ -z "$props" ]; then
  props=$(python3 -c "import json;print(' '.join(c['property_id'] for c in json.load(open('MANIFEST.json'))['checks']))")
fi
fail=0
# The self-test patches the repository it runs on. On the live /repo this is only allowed when
# asked for explicitly (never from a background run: use `vp run --with-repo` and VERIF_REPO=$VP_RUN_REPO).
if [ "$REPO" = "/repo" ] && [ "${VERIF_SELFTEST_LIVE:-}" != "1" ]; then echo "selftest: refusing to patch the live /repo (set VERIF_SELFTEST_LIVE=1, or run on a snapshot with VERIF_REPO)"; exit 2; fi
if [ -n "$(git -C "$REPO" status --porcelain --untracked-files=no)" ]; then echo "selftest: $REPO has uncommitted changes, refusing"; exit 2; fi
for p in $props; do
  out=$(./check $p quick 2>&1); rc=$?
  if [ $rc -ne 0 ]; then echo "SELFTEST-FAIL $p: alarm on unchanged tree"; echo "$out" | grep -v '^   ' | tail -5; fail=1; else echo "ok   $p unchanged: $(echo "$out" | tail -1)"; fi
  for m in selftest/mutations/${p}_*.patch; do
    [ -f "$m" ] || continue
    exp=$(cat "${m%.patch}.expect")
    if ! git -C "$REPO" apply "$PWD/$m" 2>/dev/null; then echo "SELFTEST-FAIL $m does not apply"; fail=1; continue; fi
    out=$(./check $p quick 2>&1); rc=$?
    git -C "$REPO" checkout -- .
    if [ $rc -eq 1 ] && echo "$out" | grep -q "VIOLATION property=$p" && echo "$out" | grep -qF "$exp"; then
      echo "ok   $(basename $m): detected ($exp)"
    else
      echo "SELFTEST-FAIL $(basename $m): rc=$rc, expected obligation '$exp' not reported"; echo "$out" | grep -v '^   ' | tail -4; fail=1
    fi
  done
  # changes seeded by independent sub-agents (seeded/<id>/patch.diff, expected obligation in seeded/<id>/expect)
  for m in seeded/${p}*/patch.diff; do
    [ -f "$m" ] || continue
    [ -f "$(dirname $m)/expect" ] || { echo "skip $m (recorded as not caught, see its meta.json)"; continue; }
    exp=$(cat "$(dirname $m)/expect" 2>/dev/null)
    if ! git -C "$REPO" apply "$PWD/$m" 2>/dev/null; then echo "SELFTEST-FAIL $m does not apply"; fail=1; continue; fi
    out=$(./check $p quick 2>&1); rc=$?
    git -C "$REPO" checkout -- .
    if [ $rc -eq 1 ] && echo "$out" | grep -q "VIOLATION property=$p" && echo "$out" | grep -qF "$exp"; then
      echo "ok   $m: detected ($exp)"
    else
      echo "SELFTEST-FAIL $m: rc=$rc, expected obligation '$exp' not reported"; echo "$out" | grep -v '^   ' | tail -4; fail=1
    fi
  done
  for m in selftest/harmless/${p}_*.patch; do
    [ -f "$m" ] || continue
    if ! git -C "$REPO" apply "$PWD/$m" 2>/dev/null; then echo "SELFTEST-FAIL $m does not apply"; fail=1; continue; fi
    out=$(./check $p quick 2>&1); rc=$?
    git -C "$REPO" checkout -- .
    if [ $rc -eq 0 ]; then echo "ok   $(basename $m): stays quiet"; else echo "SELFTEST-FAIL $(basename $m): false alarm on a harmless edit"; echo "$out" | grep -v '^   ' | tail -4; fail=1; fi
  done
done
# refresh evidence from the unchanged tree
for p in $props; do ./check $p quick >/dev/null 2>&1; done
exit $fail
