package main

// Query construction (with ground instantiation of assumed quantifiers) and solver racing.

import (
	"bytes"
	"context"
	"fmt"
	"os"
	"os/exec"
	"path/filepath"
	"regexp"
	"runtime"
	"sort"
	"strings"
	"sync"
	"time"
)

type SolverCfg struct {
	Name string
	Cmd  []string // file name appended
	Pre  string   // prefix text
}

var solvers = []SolverCfg{
	{Name: "z3-5.1.0", Cmd: []string{"z3-new", "-smt2"}},
	{Name: "z3-4.8.12", Cmd: []string{"z3", "-smt2"}},
	{Name: "cvc5-1.0", Cmd: []string{"cvc5", "--lang=smt2", "--arrays-exp"}, Pre: "(set-logic ALL)\n"},
}

// specAxioms: defining equations of uninterpreted specification functions, instantiated per application.
var specAxioms = map[string]func(app *Term) []*Term{}

// revealAxioms: definitions of opaque specification functions, used only by obligations
// whose contract says `reveal <name>`.
var revealAxioms = map[string]func(app *Term) []*Term{}

var maxInstCandidates = 80
var maxInstTotal = 6000

// indexCandidates collects terms used as array indices (of the given sort) or as
// positions of strbyte in the cone of roots.
// skolemish: a witness constant introduced for an assumed existential (or an offset of one).
func skolemish(t *Term) bool {
	if len(t.Args) == 0 && strings.HasPrefix(t.Name, "sk_") {
		return true
	}
	if t.Op == "bvadd" {
		return skolemish(t.Args[0]) || skolemish(t.Args[1])
	}
	return false
}

func indexCandidates(order []*Term, srt *Sort) []*Term {
	seen := map[int]bool{}
	var out []*Term
	var add func(t *Term)
	add = func(t *Term) {
		if t.Sort == srt && !seen[t.id] {
			seen[t.id] = true
			out = append(out, t)
			// an absolute index off+i also proposes the relative index i (and off)
			if t.Op == "bvadd" {
				add(t.Args[0])
				add(t.Args[1])
			}
		}
	}
	for _, t := range order {
		switch t.Op {
		case "select", "store":
			add(t.Args[1])
		case "app":
			if t.Name == "strbyte" {
				add(t.Args[1])
			}
			if strings.HasPrefix(t.Name, "spec|") {
				for _, a := range t.Args {
					add(a)
				}
			}
			if strings.HasPrefix(t.Name, "param|") {
				// arguments of pure function-typed parameters, widened to int
				for _, a := range t.Args {
					if a.Sort.Kind == SBV && a.Sort.W < 64 && srt == IntSort {
						if a.Op == "extract" && a.Args[0].Sort == IntSort {
							add(a.Args[0])
						} else {
							add(ZExt(a, 64))
						}
					} else {
						add(a)
					}
				}
			}
		}
	}
	return out
}

// safeBody instantiates a lazily held quantified fact; an instance that cannot be built
// (the body uses something the engine does not support at this term) is dropped, which only
// weakens the hypotheses.
func safeBody(lf *LazyForall, c *Term) (t *Term) {
	defer func() {
		if r := recover(); r != nil {
			if _, ok := r.(unsupported); ok {
				t = True
				return
			}
			panic(r)
		}
	}()
	return lf.Body(c)
}

func (P *Prog) buildQuery(o *Obligation) (asserts []*Term, stats string) {
	var base []*Term
	if o.Cover {
		base = []*Term{o.Hyp, o.Goal}
	} else {
		base = []*Term{o.Hyp, Not(o.Goal)}
	}
	asserts = append(asserts, base...)
	// Three saturation steps are interleaved for a few rounds, because each can introduce
	// terms the others act on: (1) ground instances of the quantified facts at the index
	// terms of the query, (2) the defining equations of specification functions for every
	// application, (3) extensionality of the summing functions between different rows.
	done := map[string]bool{}
	doneApp := map[int]bool{}
	donePair := map[string]bool{}
	total := 0
	lazies := append([]*LazyForall{}, o.Lazy...)
	{
		var names []string
		for n := range entryHeapFacts {
			names = append(names, n)
		}
		sort.Strings(names)
		for _, n := range names {
			lazies = append(lazies, entryHeapFacts[n])
		}
	}
	// index terms of the goal itself are always used as instantiation points
	goalTerms := map[int]bool{}
	for _, srt := range []*Sort{IntSort, RefSort} {
		for _, t := range indexCandidates(collect([]*Term{o.Goal}), srt) {
			goalTerms[t.id] = true
		}
	}
	specRounds := 0
	inQuery := map[*LazyForall]bool{}
	lazySink = &lazies
	defer func() { lazySink = nil }()
	for round := 0; round < 8; round++ {
		var added []*Term
		order := collect(asserts)
		existing := make(map[int]bool, len(order))
		// hidden rows: array-sorted atoms that occur as the stored value of a store or as a
		// branch of an ite, so that reads of them need not occur syntactically in the query.
		// They are marked with negative keys in the same map (-id).
		for _, t := range order {
			existing[t.id] = true
			switch t.Op {
			case "store":
				if v := t.Args[2]; v.Sort.Kind == SArray && len(v.Args) == 0 {
					existing[-v.id] = true
				}
			case "ite":
				for _, v := range t.Args[1:] {
					if v.Sort.Kind == SArray && len(v.Args) == 0 {
						existing[-v.id] = true
					}
				}
			}
		}
		candBySort := map[*Sort][]*Term{}
		if round < 7 {
			for li := 0; li < len(lazies); li++ {
				lf := lazies[li]
				cands, have := candBySort[lf.Sort]
				if !have {
					cands = indexCandidates(order, lf.Sort)
					if len(cands) > maxInstCandidates {
						// prefer witnesses of assumed existentials (sk_ constants and offsets of
						// them), then older (smaller) terms
						sort.SliceStable(cands, func(i, j int) bool {
							si, sj := skolemish(cands[i]), skolemish(cands[j])
							if si != sj {
								return si
							}
							return cands[i].id < cands[j].id
						})
						cands = cands[:maxInstCandidates]
					}
					candBySort[lf.Sort] = cands
				}
				cands = append([]*Term{}, cands...)
				// relative index 0 (an absolute index that is exactly a slice offset has no
				// syntactic relative part)
				if lf.Sort == IntSort {
					cands = append(cands, BVi(0, 64))
				}
				// the goal's own constants and explicit hints are always tried
				for _, s := range o.Skolems {
					if s.Sort == lf.Sort {
						cands = append(cands, s)
					}
				}
				cands = append(cands, lf.Uses...)
				always := map[int]bool{}
				for id := range goalTerms {
					always[id] = true
				}
				for _, s := range o.Skolems {
					always[s.id] = true
				}
				for _, s := range lf.Uses {
					always[s.id] = true
				}
				for _, c := range cands {
					k := fmt.Sprintf("%d/%d", li, c.id)
					if done[k] || total >= maxInstTotal {
						continue
					}
					bc := globalBodyCache[lf]
					if bc == nil {
						bc = map[int]bodyEntry{}
						globalBodyCache[lf] = bc
					}
					ent, have := bc[c.id]
					if !have {
						n0 := len(lazies)
						ent.body = safeBody(lf, c)
						ent.nested = append([]*LazyForall{}, lazies[n0:]...)
						bc[c.id] = ent
					} else {
						// quantified facts nested in this instance belong to this query too
						for _, nl := range ent.nested {
							if !inQuery[nl] {
								lazies = append(lazies, nl)
							}
						}
					}
					for _, nl := range ent.nested {
						inQuery[nl] = true
					}
					body := ent.body
					if body == True {
						done[k] = true
						continue
					}
					// trigger: an instance at a term merely found in the query is kept only if it
					// talks about a read (array select, string byte, function application) that
					// already occurs in the query and involves that term; otherwise it is retried
					// in a later round. The goal's own constants and hints are always used.
					if !always[c.id] && !triggered(body, kfree(lf), existing) {
						continue
					}
					done[k] = true
					inst := Implies(lf.Guard, body)
					if os.Getenv("VERIF_DEBUG") == "inst" {
						fmt.Fprintf(os.Stderr, "inst %s: %.100s @ %.60s\n", o.Name, lf.Desc, c.String())
					}
					if inst != True {
						added = append(added, inst)
						total++
					}
				}
			}
		}
		var apps []*Term
		for _, t := range collect(append(append([]*Term{}, asserts...), added...)) {
			if t.Op != "app" {
				continue
			}
			if round == 0 && (t.Name == "spec|bcount" || t.Name == "spec|vtotal") {
				apps = append(apps, t)
			}
			if doneApp[t.id] || specRounds >= 3 {
				continue
			}
			doneApp[t.id] = true
			if ax, ok := specAxioms[t.Name]; ok {
				added = append(added, ax(t)...)
			}
			// opaque functions: computational definition only where revealed
			if rax, isOpaque := revealAxioms[t.Name]; isOpaque {
				for _, r := range o.Reveal {
					if "spec|"+r == t.Name {
						added = append(added, rax(t)...)
					}
				}
			}
		}
		// extensionality between the applications present before any unfolding
		if len(apps) <= 12 {
			for x := 0; x < len(apps); x++ {
				for y := x + 1; y < len(apps); y++ {
					a, b := apps[x], apps[y]
					if a.Name != b.Name || a.Args[0] == b.Args[0] {
						continue
					}
					k := fmt.Sprintf("%d/%d", a.id, b.id)
					if donePair[k] {
						continue
					}
					donePair[k] = true
					added = append(added, rowExtensionality(a, b))
				}
			}
		}
		if len(added) == 0 {
			break
		}
		specRounds++
		asserts = append(asserts, added...)
	}
	stats = fmt.Sprintf("%d instantiations of %d assumed quantifiers", total, len(lazies))
	ocDone := map[string]bool{}
	for round := 0; round < 3; round++ {
		added := oc16Congruence(asserts, ocDone)
		if len(added) == 0 {
			break
		}
		asserts = append(asserts, added...)
		// A1/A3 for the new applications
		for _, t := range collect(added) {
			if t.Op == "app" && t.Name == "spec|oc16" {
				asserts = append(asserts, specAxioms["spec|oc16"](t)...)
			}
		}
	}
	order := collect(asserts)
	asserts = append(asserts, P.strFacts(order)...)
	// reserved references for immutable global objects
	asserts = append(asserts, ULt(BVi(1024, 32), Var("alloc@0", RefSort)), ULe(Var("alloc@0", RefSort), BVu(0x00fffff0, 32)))
	return asserts, stats
}

// kfree returns the set of subterms of the body of lf that do not depend on the bound
// variable (computed once, by instantiating at a fresh variable).
var kfreeCache = map[*LazyForall]map[int]bool{}

func kfree(lf *LazyForall) map[int]bool {
	if m, ok := kfreeCache[lf]; ok {
		return m
	}
	m := map[int]bool{}
	b := safeBody(lf, Fresh("kfree", lf.Sort))
	for _, t := range collect([]*Term{b}) {
		m[t.id] = true
	}
	kfreeCache[lf] = m
	return m
}

// triggered reports whether the instance body contains a read term (select / uninterpreted
// application) that already occurs in the query (existing) and depends on the instantiation
// term, i.e. is not one of the subterms the body has for every value of the bound variable.
func triggered(body *Term, indep map[int]bool, existing map[int]bool) bool {
	seen := map[int]bool{}
	stack := []*Term{body}
	for len(stack) > 0 {
		t := stack[len(stack)-1]
		stack = stack[:len(stack)-1]
		if seen[t.id] || indep[t.id] {
			// subterms that do not depend on the bound variable cannot contain dependent reads
			continue
		}
		seen[t.id] = true
		if (t.Op == "select" || t.Op == "app") && existing[t.id] {
			return true
		}
		// a read of a row that occurs in the query only inside stores/ites
		if t.Op == "select" && existing[-t.Args[0].id] {
			return true
		}
		stack = append(stack, t.Args...)
	}
	return false
}

// globalBodyCache: instances of quantified facts are reused across the obligations of a function.
type bodyEntry struct {
	body   *Term
	nested []*LazyForall
}

var globalBodyCache = map[*LazyForall]map[int]bodyEntry{}

// rowExtensionality: two sums over ranges of equal length differ only if the rows differ at
// some position of the range; the position is named by a Skolem function of the two
// applications, so the copy/append facts get instantiated there.
func rowExtensionality(a, b *Term) *Term {
	ra, loa, hia := a.Args[0], a.Args[1], a.Args[2]
	rb, lob, hib := b.Args[0], b.Args[1], b.Args[2]
	d := App("spec|diffidx|"+a.Name, IntSort, ra, loa, hia, rb, lob)
	same := And(Eq(Sub(hia, loa), Sub(hib, lob)), SLe(loa, hia), Neq(a, b))
	return Implies(same, And(SLe(BVi(0, 64), d), SLt(d, Sub(hia, loa)), Neq(Select(ra, Add(loa, d)), Select(rb, Add(lob, d)))))
}

// oc16Congruence instantiates compatibility of oc16 (x mod 65535) with addition:
// oc16(X) = oc16(Y) ⇒ oc16(X + R) = oc16(Y + R), for every equation between oc16 terms in
// the query and every oc16 application whose argument is a sum containing X's summands.
// Each instance carries the equation and the no-overflow bounds as hypotheses, so it is valid
// wherever the equation occurs (also under guards).

func sumOperands(t *Term, out *[]*Term) {
	if t.Op == "bvadd" {
		sumOperands(t.Args[0], out)
		sumOperands(t.Args[1], out)
		return
	}
	*out = append(*out, t)
}

func oc16Congruence(asserts []*Term, oc16Done map[string]bool) []*Term {
	order := collect(asserts)
	type eqn struct{ x, y, eq *Term }
	var eqs []eqn
	var apps []*Term
	isOc := func(t *Term) bool { return t.Op == "app" && t.Name == "spec|oc16" }
	for _, t := range order {
		if isOc(t) {
			apps = append(apps, t)
		}
		if t.Op == "=" && isOc(t.Args[0]) && isOc(t.Args[1]) {
			eqs = append(eqs, eqn{t.Args[0].Args[0], t.Args[1].Args[0], t}, eqn{t.Args[1].Args[0], t.Args[0].Args[0], t})
		}
	}
	if len(eqs) == 0 {
		return nil
	}
	bound := BVi(1<<48, 64)
	var out []*Term
	// complement rule (the "checksum field := ^sum" idiom): if a 16-bit value c represents a
	// sum Y (oc16(c) = oc16(Y)), then Y + (0xffff - c) is a multiple of 65535.
	for _, e := range eqs {
		if e.x.Op != "zero_extend" || e.x.Args[0].Sort.W != 16 {
			continue
		}
		key := fmt.Sprintf("cpl/%d/%d", e.eq.id, e.x.id)
		if oc16Done[key] {
			continue
		}
		oc16Done[key] = true
		out = append(out, Implies(And(e.eq, ULe(e.y, bound)),
			Eq(App("spec|oc16", BVSort(64), Add(e.y, Sub(BVi(0xffff, 64), e.x))), BVi(0, 64))))
	}
	for _, a := range apps {
		var ops []*Term
		sumOperands(a.Args[0], &ops)
		for _, e := range eqs {
			var xs []*Term
			sumOperands(e.x, &xs)
			if len(xs) >= len(ops) {
				continue
			}
			// multiset difference ops - xs
			rest := append([]*Term{}, ops...)
			ok := true
			for _, x := range xs {
				found := false
				for i, r := range rest {
					if r == x {
						rest = append(rest[:i], rest[i+1:]...)
						found = true
						break
					}
				}
				if !found {
					ok = false
					break
				}
			}
			if !ok || len(rest) == 0 {
				continue
			}
			key := fmt.Sprintf("%d/%d", a.id, e.eq.id) + "/" + fmt.Sprint(e.x.id)
			if oc16Done[key] {
				continue
			}
			oc16Done[key] = true
			r := rest[0]
			for _, x := range rest[1:] {
				r = Add(r, x)
			}
			hyp := And(e.eq, ULe(e.x, bound), ULe(e.y, bound), ULe(r, bound))
			out = append(out, Implies(hyp, Eq(a, App("spec|oc16", BVSort(64), Add(e.y, r)))))
		}
	}
	return out
}

type solveResult struct {
	status string // unsat, sat, unknown, timeout, error
	solver string
	ms     int64
	output string
}

var solverSlots = make(chan struct{}, solverProcs())

func solverProcs() int {
	n := runtime.NumCPU()
	if n < 2 {
		n = 2
	}
	return n
}

func runSolver(ctx context.Context, cfg SolverCfg, file string, script string, timeout time.Duration) solveResult {
	path := file
	if cfg.Pre != "" {
		path = file + "." + cfg.Name + ".smt2"
		os.WriteFile(path, []byte(cfg.Pre+script), 0o644)
		defer os.Remove(path)
	}
	// at most one solver process per core at any time (the time limit starts when it starts)
	select {
	case solverSlots <- struct{}{}:
	case <-ctx.Done():
		return solveResult{"unknown", cfg.Name, 0, "cancelled"}
	}
	defer func() { <-solverSlots }()
	if ctx.Err() != nil {
		return solveResult{"unknown", cfg.Name, 0, "cancelled"}
	}
	cctx, cancel := context.WithTimeout(ctx, timeout)
	defer cancel()
	args := append(append([]string{}, cfg.Cmd[1:]...), path)
	cmd := exec.CommandContext(cctx, cfg.Cmd[0], args...)
	var out bytes.Buffer
	cmd.Stdout = &out
	cmd.Stderr = &out
	t0 := time.Now()
	err := cmd.Run()
	ms := time.Since(t0).Milliseconds()
	text := out.String()
	first := strings.TrimSpace(strings.SplitN(text, "\n", 2)[0])
	switch first {
	case "unsat", "sat", "unknown":
		return solveResult{first, cfg.Name, ms, text}
	}
	if cctx.Err() != nil {
		return solveResult{"timeout", cfg.Name, ms, text}
	}
	_ = err
	return solveResult{"error", cfg.Name, ms, text}
}

// race runs the solvers on the script: first a quick attempt with the primary solver, then all in parallel.
func race(file, script string, timeout time.Duration, want2 bool) []solveResult {
	return raceOpt(file, script, timeout, want2, false)
}

func raceOpt(file, script string, timeout time.Duration, want2, skipQuick bool) []solveResult {
	os.WriteFile(file, []byte(script), 0o644)
	var results []solveResult
	if !want2 && !skipQuick {
		quick := 3 * time.Second
		if timeout < quick {
			quick = timeout
		}
		r := runSolver(context.Background(), solvers[0], file, script, quick)
		if r.status == "unsat" || r.status == "sat" {
			return []solveResult{r}
		}
		results = append(results, r)
	}
	ctx, cancel := context.WithCancel(context.Background())
	defer cancel()
	ch := make(chan solveResult, len(solvers))
	for _, s := range solvers {
		go func(s SolverCfg) { ch <- runSolver(ctx, s, file, script, timeout) }(s)
	}
	need := 1
	if want2 {
		need = 2
	}
	var definitive []solveResult
	// when two answers are wanted, a second solver gets three times what the first one needed
	// (at least 20 s) after the first definitive answer, not the whole limit
	var grace <-chan time.Time
	t0 := time.Now()
loop:
	for n := 0; n < len(solvers); n++ {
		select {
		case r := <-ch:
			results = append(results, r)
			if r.status == "unsat" || r.status == "sat" {
				definitive = append(definitive, r)
				if len(definitive) >= need {
					break loop
				}
				if grace == nil {
					d := 3 * time.Since(t0)
					if d < 20*time.Second {
						d = 20 * time.Second
					}
					grace = time.After(d)
				}
			}
		case <-grace:
			break loop
		}
	}
	cancel()
	if len(definitive) > 0 {
		return append(definitive, results...)
	}
	return results
}

// raceWithCases: a quick attempt on the whole query; if that does not decide it, the query is
// split on the given conditions (2^k cases, each the whole query plus the case's literals) and
// all cases must be unsat; if a case is not refuted the whole query is raced as usual.
func raceWithCases(file, script string, conds []string, timeout time.Duration) []solveResult {
	os.WriteFile(file, []byte(script), 0o644)
	quick := 3 * time.Second
	if timeout < quick {
		quick = timeout
	}
	r := runSolver(context.Background(), solvers[0], file, script, quick)
	if r.status == "unsat" || r.status == "sat" {
		return []solveResult{r}
	}
	base := strings.TrimSuffix(script, "(check-sat)\n")
	if base == script {
		return race(file, script, timeout, false)
	}
	n := 1 << len(conds)
	ctx, cancel := context.WithCancel(context.Background())
	defer cancel()
	ch := make(chan solveResult, n)
	t0 := time.Now()
	for m := 0; m < n; m++ {
		var sb strings.Builder
		sb.WriteString(base)
		for i, c := range conds {
			if m&(1<<i) != 0 {
				fmt.Fprintf(&sb, "(assert %s)\n", c)
			} else {
				fmt.Fprintf(&sb, "(assert (not %s))\n", c)
			}
		}
		sb.WriteString("(check-sat)\n")
		cf := fmt.Sprintf("%s.case%d.smt2", file, m)
		go func(cf, text string) {
			os.WriteFile(cf, []byte(text), 0o644)
			ch <- runSolver(ctx, solvers[0], cf, text, timeout)
			os.Remove(cf)
		}(cf, sb.String())
	}
	// in parallel: the other solvers on the whole query
	full := make(chan solveResult, len(solvers))
	nFull := 0
	for _, sv := range solvers[1:] {
		nFull++
		go func(sv SolverCfg) { full <- runSolver(ctx, sv, file, script, timeout) }(sv)
	}
	casesLeft, casesOK := n, true
	var undecided []solveResult
	for casesLeft > 0 || nFull > 0 {
		select {
		case cr := <-ch:
			casesLeft--
			if os.Getenv("VERIF_DEBUG") != "" {
				fmt.Fprintf(os.Stderr, "case of %s: %s %d ms\n", filepath.Base(file), cr.status, cr.ms)
			}
			if cr.status == "sat" {
				// the whole query is satisfiable in this case
				cancel()
				return []solveResult{{"sat", solvers[0].Name, time.Since(t0).Milliseconds() + r.ms, cr.output}}
			}
			if cr.status != "unsat" {
				casesOK = false
			}
			if casesLeft == 0 && casesOK {
				cancel()
				return []solveResult{{"unsat", fmt.Sprintf("%s/cases(%d)", solvers[0].Name, n), time.Since(t0).Milliseconds() + r.ms, ""}}
			}
		case fr := <-full:
			nFull--
			if fr.status == "unsat" || fr.status == "sat" {
				cancel()
				return []solveResult{fr}
			}
			undecided = append(undecided, fr)
		}
	}
	// nothing decided: one more attempt of the primary solver on the whole query
	last := runSolver(context.Background(), solvers[0], file, script, timeout)
	return append([]solveResult{last}, undecided...)
}

var modelRe = regexp.MustCompile(`\(define-fun\s+(\S+|\|[^|]*\|)\s+\(\)\s+(\(_ BitVec \d+\)|Bool)\s+(#x[0-9a-fA-F]+|#b[01]+|true|false)\)`)

func parseScalarModel(out string) map[string]string {
	m := map[string]string{}
	flat := strings.Join(strings.Fields(out), " ")
	for _, g := range modelRe.FindAllStringSubmatch(flat, -1) {
		m[strings.Trim(g[1], "|")] = g[3]
	}
	return m
}

type SolveOpts struct {
	Dir      string
	Timeout  time.Duration
	TwoAgree bool
	Workers  int
	KeepSMT  bool
}

// discharge decides all obligations in parallel.
func (P *Prog) discharge(obls []*Obligation, opt SolveOpts) {
	os.MkdirAll(opt.Dir, 0o755)
	var wg sync.WaitGroup
	sem := make(chan struct{}, opt.Workers)
	type job struct {
		o      *Obligation
		script string
		conds  []string // printed split conditions (case split fallback)
	}
	// query construction touches the global term table: do it sequentially
	var launchWith func(i int, j job, opt SolveOpts)
	launch := func(i int, j job) { launchWith(i, j, opt) }
	launchWith = func(i int, j job, opt SolveOpts) {
		wg.Add(1)
		sem <- struct{}{}
		go func(i int, j job) {
			defer wg.Done()
			defer func() { <-sem }()
			o := j.o
			file := filepath.Join(opt.Dir, fmt.Sprintf("q%04d.smt2", i))
			var rs []solveResult
			if !opt.TwoAgree && !o.Cover && len(j.conds) > 0 {
				rs = raceWithCases(file, j.script, j.conds, opt.Timeout)
			} else {
				rs = race(file, j.script, opt.Timeout, opt.TwoAgree && !o.Cover)
			}
			r := rs[0]
			o.Solver, o.Ms = r.solver, r.ms
			want := "unsat"
			if o.Cover {
				want = "sat"
			}
			switch {
			case r.status == want:
				o.Status = "proved"
				if opt.TwoAgree && !o.Cover {
					if len(rs) < 2 || rs[1].status != want || rs[1].solver == r.solver {
						// proved by one solver; a second one did not decide it within the limit
						// (recorded in the evidence, not an alarm). A second solver that CONTRADICTS
						// the first is an alarm.
						o.Unconfirmed = true
						for _, x := range rs[1:] {
							if x.status == "sat" || x.status == "unsat" {
								if x.status != want && x.solver != r.solver {
									o.Status = "unknown"
									o.Output = fmt.Sprintf("solvers disagree: %s=%s, %s=%s", r.solver, r.status, x.solver, x.status)
								}
							}
						}
					} else {
						o.Solver = r.solver + "+" + rs[1].solver
					}
				}
			case r.status == "sat" || r.status == "unsat":
				o.Status = "failed"
				if r.status == "sat" {
					// fetch a model
					mr := runSolver(context.Background(), solvers[0], file+".model.smt2", j.script+"(get-model)\n", opt.Timeout)
					os.WriteFile(file+".model.smt2", []byte(j.script+"(get-model)\n"), 0o644)
					mr = runSolver(context.Background(), solvers[0], file+".model.smt2", j.script+"(get-model)\n", opt.Timeout)
					o.Output = mr.output
					o.Model = parseScalarModel(mr.output)
					os.Remove(file + ".model.smt2")
				}
			default:
				o.Status = "unknown"
				for _, x := range rs {
					o.Output += fmt.Sprintf("%s=%s (%d ms); ", x.solver, x.status, x.ms)
				}
			}
			if !opt.KeepSMT && o.Status == "proved" {
				os.Remove(file)
			} else {
				o.Output = "query: " + file + "\n" + o.Output
			}
		}(i, j)
	}
	var jobs []job
	tBuild := time.Now()
	defer func() {
		if os.Getenv("VERIF_DEBUG") != "" {
			fmt.Fprintf(os.Stderr, "timing: total discharge %.1fs\n", time.Since(tBuild).Seconds())
		}
	}()
	for _, o := range obls {
		t0 := time.Now()
		asserts, stats := P.buildQuery(o)
		if d := time.Since(t0); d > 500*time.Millisecond && os.Getenv("VERIF_DEBUG") != "" {
			fmt.Fprintf(os.Stderr, "timing: buildQuery %s took %.1fs\n", o.Name, d.Seconds())
		}
		if os.Getenv("VERIF_DEBUG") != "" {
			fmt.Fprintf(os.Stderr, "query %s: %s\n", o.Name, stats)
			for _, l := range o.Lazy {
				fmt.Fprintf(os.Stderr, "   lazy[%s]: %s\n", l.Sort, l.Desc)
			}
		}
		var jb job
		if os.Getenv("VERIF_NO_CASES") == "" && !o.Cover {
			sc, cs := ScriptEx(asserts, "", nil, splitConds(asserts, 2))
			jb = job{o, sc, cs}
		} else {
			jb = job{o, Script(asserts, "", nil), nil}
		}
		jobs = append(jobs, jb)
		launch(len(jobs)-1, jb)
	}
	if os.Getenv("VERIF_DEBUG") != "" {
		fmt.Fprintf(os.Stderr, "timing: all queries built in %.1fs\n", time.Since(tBuild).Seconds())
	}
	wg.Wait()
	// Retry phase: an obligation that no solver decided within the limit is run once more with three times the
	// limit and few concurrent processes, so that a loaded machine does not turn a slow proof into an alarm.
	// A definitive answer (unsat/sat) is never revisited.
	if os.Getenv("VERIF_NO_RETRY") == "" {
		var again []int
		for i, j := range jobs {
			if j.o.Status == "unknown" && !strings.Contains(j.o.Output, "second solver") && !strings.Contains(j.o.Output, "=error") {
				again = append(again, i)
			}
		}
		if len(again) > 0 && len(again) <= 40 {
			ropt := opt
			// generous: the slowest obligations need about a minute on an idle machine and
			// have been seen to take close to three under heavy load
			ropt.Timeout = 6 * opt.Timeout
			sem = make(chan struct{}, 4)
			for _, i := range again {
				j := jobs[i]
				prev := j.o.Output
				j.o.Status, j.o.Output = "", ""
				launchWith(i, j, ropt)
				_ = prev
			}
			wg.Wait()
			for _, i := range again {
				jobs[i].o.Retried = true
			}
		}
	}
}
