package main

// Program loading and lookup helpers.

import (
	"crypto/sha1"
	"fmt"
	"go/ast"
	"go/token"
	"go/types"
	"os"
	"sort"
	"strings"

	"golang.org/x/tools/go/packages"
	"golang.org/x/tools/go/ssa"
	"golang.org/x/tools/go/ssa/ssautil"
)

type Prog struct {
	nameSnap   map[string][]string // declared names of functions under contract when the contracts were written
	prog       *ssa.Program
	pkgs       []*packages.Package
	allPkgs    map[string]*packages.Package
	fset       *token.FileSet
	modulePath string
	repoDir    string
	contracts  map[string]*Contract // by "<pkgpath>:<fnname>"
	byFn       map[*ssa.Function]*Contract
	lemmas     []*Lemma
	strConsts  map[string]*Term
	strVals    map[int]string // term id -> literal
	typeTags   map[string]int
	specFuncs  map[string]func(env *SpecEnv, args []Value) Value
	immut      map[string]bool
	freshPtr   map[string]int // immutable globals initialised with a fresh allocation: distinct concrete refs
	loadErrs   []string
	fnByName   map[string]*ssa.Function
	usedLemmas map[string]bool
	macros     map[string]*Macro // "<pkgpath>:<name>"
	final      *finalInfo
}

// finalProg: the program whose final-field analysis State.heap consults.
var finalProg *Prog

func loadProg(repoDir string, patterns []string, tags string) (*Prog, error) {
	cfg := &packages.Config{Mode: packages.LoadAllSyntax, Dir: repoDir, BuildFlags: []string{"-tags=" + tags}}
	pkgs, err := packages.Load(cfg, patterns...)
	if err != nil {
		return nil, err
	}
	P := &Prog{pkgs: pkgs, allPkgs: map[string]*packages.Package{}, repoDir: repoDir, contracts: map[string]*Contract{},
		byFn: map[*ssa.Function]*Contract{}, strConsts: map[string]*Term{}, strVals: map[int]string{}, typeTags: map[string]int{},
		specFuncs: map[string]func(env *SpecEnv, args []Value) Value{}, immut: map[string]bool{}, freshPtr: map[string]int{}, fnByName: map[string]*ssa.Function{}}
	packages.Visit(pkgs, nil, func(p *packages.Package) {
		P.allPkgs[p.PkgPath] = p
		for _, e := range p.Errors {
			// errors in packages that cannot be assembled (pkg/sleep) do not matter for type checking,
			// but type errors do
			if e.Kind == packages.TypeError || e.Kind == packages.ParseError {
				P.loadErrs = append(P.loadErrs, e.Error())
			}
		}
	})
	if len(pkgs) > 0 {
		P.fset = pkgs[0].Fset
		if pkgs[0].Module != nil {
			P.modulePath = pkgs[0].Module.Path
		}
	}
	if P.modulePath == "" {
		P.modulePath = "github.com/brewlin/net-protocol"
	}
	prog, _ := ssautil.AllPackages(pkgs, ssa.NaiveForm|ssa.GlobalDebug)
	prog.Build()
	P.prog = prog
	if os.Getenv("VERIF_NO_FINAL") == "" {
		P.computeFinalFields()
		finalProg = P
	}
	// contracts
	for path, p := range P.allPkgs {
		if !strings.HasPrefix(path, P.modulePath) {
			continue
		}
		for _, f := range p.GoFiles {
			if !strings.HasSuffix(f, "_verif.go") || !strings.Contains(f, "contracts") {
				continue
			}
			cf, err := parseContractFile(f, path)
			if err != nil {
				return nil, err
			}
			for _, c := range cf.Contracts {
				if i := strings.LastIndex(c.FnName, "/"); i >= 0 {
					// contract for a function of another package (e.g. container/heap.Pop[*fragHeap]):
					// keyed by that package, evaluated in the contract file's package
					rest := c.FnName[i+1:]
					if j := strings.Index(rest, "."); j >= 0 {
						P.contracts[c.FnName[:i+1]+rest[:j]+":"+rest[j+1:]] = c
						c.External = true
						continue
					}
				}
				P.contracts[path+":"+c.FnName] = c
			}
			P.lemmas = append(P.lemmas, cf.Lemmas...)
			for _, m := range cf.Macros {
				if P.macros == nil {
					P.macros = map[string]*Macro{}
				}
				P.macros[path+":"+m.Name] = m
			}
		}
	}
	P.scanGlobals()
	return P, nil
}

// allFunctions lists the functions (including methods and closures) of a package.
func (P *Prog) pkgFunctions(pkg *ssa.Package) []*ssa.Function {
	seen := map[*ssa.Function]bool{}
	var out []*ssa.Function
	var add func(f *ssa.Function)
	add = func(f *ssa.Function) {
		if f == nil || seen[f] {
			return
		}
		seen[f] = true
		out = append(out, f)
		for _, a := range f.AnonFuncs {
			add(a)
		}
	}
	for _, m := range pkg.Members {
		switch x := m.(type) {
		case *ssa.Function:
			add(x)
		case *ssa.Type:
			for _, t := range []types.Type{x.Type(), types.NewPointer(x.Type())} {
				ms := P.prog.MethodSets.MethodSet(t)
				for i := 0; i < ms.Len(); i++ {
					f := P.prog.MethodValue(ms.At(i))
					if f != nil && f.Synthetic == "" {
						add(f)
					}
				}
			}
		}
	}
	sort.Slice(out, func(i, j int) bool { return out[i].String() < out[j].String() })
	return out
}

func (P *Prog) ssaPkg(path string) *ssa.Package {
	p := P.allPkgs[path]
	if p == nil || p.Types == nil {
		return nil
	}
	return P.prog.Package(p.Types)
}

// fnKey is the name used in contract files: F, (T).M, (*T).M, F$1.
func fnKey(fn *ssa.Function) string {
	s := fn.String()
	pp := pkgPathOf(fn)
	if pp != "" {
		s = strings.ReplaceAll(s, pp+".", "")
	}
	return s
}

func (P *Prog) contractOf(fn *ssa.Function) *Contract {
	if fn == nil {
		return nil
	}
	if c, ok := P.byFn[fn]; ok {
		return c
	}
	c := P.contracts[pkgPathOf(fn)+":"+fnKey(fn)]
	P.byFn[fn] = c
	if c != nil {
		c.bound = true
	}
	return c
}

func (P *Prog) contractByName(full string) *Contract {
	// full: (pkgpath.Iface).Method
	for k, c := range P.contracts {
		i := strings.Index(k, ":")
		pp, name := k[:i], k[i+1:]
		cand := strings.Replace(name, "(", "("+pp+".", 1)
		if strings.HasPrefix(name, "(*") {
			cand = strings.Replace(name, "(*", "(*"+pp+".", 1)
		}
		if cand == full {
			c.bound = true
			return c
		}
	}
	return nil
}

func (P *Prog) inlinable(fn *ssa.Function, ct *Contract) bool {
	return true
}

func (P *Prog) pkgByPath(path string) *types.Package {
	if p := P.allPkgs[path]; p != nil {
		return p.Types
	}
	return nil
}

// importedPkg resolves a package qualifier used in a contract of package pkg.
func (P *Prog) importedPkg(pkg *types.Package, name string) *types.Package {
	if pkg != nil {
		for _, imp := range pkg.Imports() {
			if imp.Name() == name {
				return imp
			}
		}
		// import aliases: look into the syntax
		if pp := P.allPkgs[pkg.Path()]; pp != nil {
			for _, f := range pp.Syntax {
				for _, is := range f.Imports {
					if is.Name != nil && is.Name.Name == name {
						path := strings.Trim(is.Path.Value, "\"")
						if ip := P.allPkgs[path]; ip != nil {
							return ip.Types
						}
					}
				}
			}
		}
	}
	// any loaded package with that name (contracts may mention packages the code does not import)
	var found *types.Package
	for _, p := range P.allPkgs {
		if p.Types != nil && p.Types.Name() == name {
			if found != nil && !strings.HasPrefix(p.PkgPath, P.modulePath) {
				continue
			}
			found = p.Types
		}
	}
	return found
}

func (P *Prog) funcByName(pkg *types.Package, name string) *ssa.Function {
	if pkg == nil {
		return nil
	}
	sp := P.prog.Package(pkg)
	if sp == nil {
		return nil
	}
	return sp.Func(name)
}

func (P *Prog) globalOf(v *types.Var) *ssa.Global {
	if v.Pkg() == nil {
		return nil
	}
	sp := P.prog.Package(v.Pkg())
	if sp == nil {
		return nil
	}
	g, _ := sp.Members[v.Name()].(*ssa.Global)
	return g
}

// methodFor finds the method name for a receiver value, adjusting the receiver
// (address-of or dereference) as Go does.
func (P *Prog) methodFor(env *SpecEnv, recv Value, name string, recvExpr ast.Expr) (*ssa.Function, Value) {
	t := recv.Type()
	try := func(t types.Type) *ssa.Function {
		ms := P.prog.MethodSets.MethodSet(t)
		for i := 0; i < ms.Len(); i++ {
			if ms.At(i).Obj().Name() == name {
				return P.prog.MethodValue(ms.At(i))
			}
		}
		return nil
	}
	if f := try(t); f != nil {
		// f may be a wrapper for a value-receiver method called through a pointer; find the declared one
		if f.Synthetic != "" {
			if pt, ok := t.Underlying().(*types.Pointer); ok {
				if g := try(pt.Elem()); g != nil && g.Synthetic == "" {
					return g, env.loadLoc(recv.(PtrV).L)
				}
			}
		}
		return f, recv
	}
	if _, ok := t.Underlying().(*types.Pointer); !ok {
		if f := try(types.NewPointer(t)); f != nil {
			l, ok := env.tryLoc(recvExpr)
			if !ok {
				specErr("method %s needs an addressable receiver", name)
			}
			return f, PtrV{l, types.NewPointer(t)}
		}
	}
	return nil, nil
}

// ---- string constants, type tags, immutable globals ----

func (P *Prog) strConst(s string) *Term {
	if s == "" {
		return BVi(0, 64)
	}
	if t, ok := P.strConsts[s]; ok {
		return t
	}
	h := sha1.Sum([]byte(s))
	t := Var(fmt.Sprintf("strlit!%x", h[:6]), StrSort64)
	P.strConsts[s] = t
	P.strVals[t.id] = s
	return t
}

// strFacts gives the defining facts of the string literals occurring among terms.
func (P *Prog) strFacts(order []*Term) []*Term {
	var lits []*Term
	for _, t := range order {
		if _, ok := P.strVals[t.id]; ok {
			lits = append(lits, t)
		}
	}
	var out []*Term
	for i, t := range lits {
		s := P.strVals[t.id]
		out = append(out, Eq(strLen(t), BVi(int64(len(s)), 64)), Neq(t, BVi(0, 64)))
		if len(s) <= 32 {
			for k := 0; k < len(s); k++ {
				out = append(out, Eq(strByte(t, BVi(int64(k), 64)), BVi(int64(s[k]), 8)))
			}
		}
		for j := 0; j < i; j++ {
			out = append(out, Neq(t, lits[j]))
		}
	}
	out = append(out, Eq(strLen(BVi(0, 64)), BVi(0, 64)))
	return out
}

func (P *Prog) typeTag(t types.Type) *Term {
	k := types.TypeString(t, qual)
	id, ok := P.typeTags[k]
	if !ok {
		h := sha1.Sum([]byte(k))
		id = int(uint32(h[0])<<16|uint32(h[1])<<8|uint32(h[2])) | 0x1000000
		P.typeTags[k] = id
	}
	return BVi(int64(id), 32)
}

// scanGlobals finds package-level variables of the module that are only assigned in
// package initialisers; they are treated as immutable.
func (P *Prog) scanGlobals() {
	written := map[string]bool{}
	initAlloc := map[string]bool{}
	for path := range P.allPkgs {
		if !strings.HasPrefix(path, P.modulePath) {
			continue
		}
		sp := P.ssaPkg(path)
		if sp == nil {
			continue
		}
		for _, fn := range P.pkgFunctions(sp) {
			isInit := fn.Name() == "init" || strings.HasPrefix(fn.Name(), "init#")
			for _, b := range fn.Blocks {
				for _, ins := range b.Instrs {
					st, ok := ins.(*ssa.Store)
					if !ok {
						// address taken in other ways (passed to a call etc.)
						continue
					}
					g, ok := st.Addr.(*ssa.Global)
					if !ok {
						continue
					}
					if !isInit {
						written[g.String()] = true
					} else if a, ok := st.Val.(*ssa.Alloc); ok && a.Heap {
						initAlloc[g.String()] = true
					}
				}
			}
			// any other use of a global's address than load/store makes it mutable
			for _, b := range fn.Blocks {
				for _, ins := range b.Instrs {
					for _, op := range ins.Operands(nil) {
						if g, ok := (*op).(*ssa.Global); ok {
							switch x := ins.(type) {
							case *ssa.UnOp:
								_ = x
							case *ssa.Store:
								if x.Addr != g {
									written[g.String()] = true
								}
							default:
								written[g.String()] = true
							}
						}
					}
				}
			}
		}
	}
	var names []string
	for path := range P.allPkgs {
		if !strings.HasPrefix(path, P.modulePath) {
			continue
		}
		sp := P.ssaPkg(path)
		if sp == nil {
			continue
		}
		for _, m := range sp.Members {
			if g, ok := m.(*ssa.Global); ok && !written[g.String()] {
				P.immut[g.String()] = true
				if initAlloc[g.String()] {
					names = append(names, g.String())
				}
			}
		}
	}
	sort.Strings(names)
	for i, n := range names {
		P.freshPtr[n] = i + 1
	}
}

const globalRefBase = 16 // concrete refs 1..N are reserved for immutable global objects

func (P *Prog) immutableGlobal(l Loc) (Value, bool) {
	if l.Kind != LGlobal || !P.immut[l.Glob] {
		return nil, false
	}
	if len(l.Path) == 0 {
		if id, ok := P.freshPtr[l.Glob]; ok {
			if pt, isP := l.Ty.Underlying().(*types.Pointer); isP {
				return PtrV{Loc{Kind: LHeap, Root: pt.Elem(), Ref: BVi(int64(id), 32), Ty: pt.Elem()}, l.Ty}, true
			}
		}
	}
	// symbolic but fixed
	prefix, idxs, ty := pathString(l.Root, l.Path)
	ls := leavesOf(ty)
	ts := make([]*Term, len(ls))
	for i, lf := range ls {
		full := lf.Sort
		for range idxs {
			full = ArraySort(IntSort, full)
		}
		t := Var("GI|"+l.Glob+"|"+joinName(prefix, lf.Name), full)
		for _, ix := range idxs {
			t = Select(t, ix)
		}
		ts[i] = t
	}
	return fromLeaves(ty, ts), true
}

// ---- declaration names: tolerance to renamed parameters and locals ----
//
// Contracts name parameters and (in loop invariants and call-site clauses) locals. A snapshot
// of the declared names of every function under contract, in declaration order, is kept in
// /verif/names.json (written by `vcgen -names-out`). If the current source declares the same
// number of names and some differ, the identifier of the contract is resolved to the name now
// declared at the same position. Only used when an identifier cannot be resolved otherwise.

// declNames: parameter names, then the source-named locals in declaration order.
func declNames(fn *ssa.Function) []string {
	var out []string
	for _, p := range fn.Params {
		out = append(out, p.Name())
	}
	type nl struct {
		name string
		pos  token.Pos
	}
	var locals []nl
	seen := map[token.Pos]bool{}
	for _, b := range fn.Blocks {
		for _, ins := range b.Instrs {
			if a, ok := ins.(*ssa.Alloc); ok && a.Comment != "" && a.Pos().IsValid() && !seen[a.Pos()] {
				seen[a.Pos()] = true
				locals = append(locals, nl{a.Comment, a.Pos()})
			}
		}
	}
	sort.SliceStable(locals, func(i, j int) bool { return locals[i].pos < locals[j].pos })
	for _, l := range locals {
		out = append(out, l.name)
	}
	return out
}

// renameMap: old name -> new name for positions at which the snapshot and the current
// declaration lists differ (nil unless both lists have the same length).
func renameMap(old, cur []string) map[string]string {
	if len(old) == 0 || len(old) != len(cur) {
		return nil
	}
	m := map[string]string{}
	for i := range old {
		if old[i] != cur[i] {
			if prev, dup := m[old[i]]; dup && prev != cur[i] {
				return nil // ambiguous
			}
			m[old[i]] = cur[i]
		}
	}
	if len(m) == 0 {
		return nil
	}
	return m
}
