package main

// Library of specification functions usable in contracts.

import (
	"go/ast"
	"go/parser"
	"go/types"
)

func parseExprString(s string) (ast.Expr, error) { return parser.ParseExpr(s) }

var tU8 = types.Typ[types.Uint8]
var tU16 = types.Typ[types.Uint16]
var tU32 = types.Typ[types.Uint32]
var tU64 = types.Typ[types.Uint64]

var specLibrary map[string]func(env *SpecEnv, args []Value) Value

func init() {
	specLibrary = map[string]func(env *SpecEnv, args []Value) Value{
		"be16":  specBE(2),
		"be32":  specBE(4),
		"be64":  specBE(8),
		"le16":  specLE(2),
		"imin":  specMinMax(true),
		"imax":  specMinMax(false),
		"byteat": func(env *SpecEnv, args []Value) Value { return Sc{byteAt(env, args[0], intArg(args[1])), tU8} },
		// vsum(s): total length of the slices in s; vtotal(s, lo, hi): of s[lo:hi]
		"vsum": func(env *SpecEnv, args []Value) Value {
			row, off, ln := lenRow(env, args[0])
			return Sc{vtotalApp(row, off, Add(off, ln)), tInt}
		},
		"vtotal": func(env *SpecEnv, args []Value) Value {
			row, off, _ := lenRow(env, args[0])
			return Sc{vtotalApp(row, Add(off, intArg(args[1])), Add(off, intArg(args[2]))), tInt}
		},
		// oc16(x): x mod 65535 for a uint64 x; opaque unless revealed
		"oc16": func(env *SpecEnv, args []Value) Value {
			x := args[0].(Sc)
			t := x.T
			if x.Ty == untypedInt {
				t = x.T
			} else if t.Sort.W != 64 {
				specErr("oc16 takes a uint64")
			}
			return Sc{App("spec|oc16", BVSort(64), t), tU64}
		},
		// chancap(ch): the capacity the channel was made with
		"chancap": func(env *SpecEnv, args []Value) Value {
			c, ok := args[0].(Sc)
			if !ok || c.T.Sort != RefSort {
				specErr("chancap of a non-channel")
			}
			return Sc{Select(chanCapVar(), c.T), tInt}
		},
		// wsum16(b, lo, hi): word sum of b[lo:hi] as uint64 (no wrap below 2^32 bytes)
		"wsum16": func(env *SpecEnv, args []Value) Value {
			row, off, _ := byteRow(env, args[0])
			return Sc{wsumApp(row, Add(off, intArg(args[1])), Add(off, intArg(args[2]))), tU64}
		},
	}
}

// ---- wsum16: the RFC 1071 word sum as a mathematical (64-bit, non-wrapping) quantity ----
//
// wsum(row, lo, hi) is the sum of the big-endian 16-bit words row[lo..hi), pairing from lo;
// a trailing odd byte counts as the high byte of a word. It is an uninterpreted function
// whose defining equations (peeling from the end) are instantiated for every application
// that occurs in a query (specAxioms).

func byteRow(env *SpecEnv, b Value) (row, off, ln *Term) {
	switch x := b.(type) {
	case SlV:
		name := "E|uint8|"
		srt := ArraySort(RefSort, ArraySort(IntSort, BVSort(8)))
		return Select(env.st.heap(name, srt), x.Arr), x.Off, x.Len
	case StrV:
		row := App("strrow", ArraySort(IntSort, BVSort(8)), x.S)
		s := x.S
		env.ex.addLazy(&LazyForall{Guard: True, Sort: IntSort, Desc: "string bytes as array", Body: func(k *Term) *Term {
			return Eq(Select(row, k), strByte(s, k))
		}})
		return row, BVi(0, 64), strLen(x.S)
	}
	specErr("wsum16 of %T", b)
	return nil, nil, nil
}

// constDiff decides syntactically whether hi - lo is a constant (64-bit wrap-around
// arithmetic): both are flattened into a linear form over atoms.
func constDiff(hi, lo *Term) (int64, bool) {
	coef := map[int]int64{}
	var c int64
	var walk func(t *Term, sign int64, depth int) bool
	walk = func(t *Term, sign int64, depth int) bool {
		if depth > 40 {
			return false
		}
		switch {
		case t.IsConst():
			if !t.Val.IsUint64() {
				return false
			}
			c += sign * int64(t.Val.Uint64())
		case t.Op == "bvadd":
			return walk(t.Args[0], sign, depth+1) && walk(t.Args[1], sign, depth+1)
		case t.Op == "bvsub":
			return walk(t.Args[0], sign, depth+1) && walk(t.Args[1], -sign, depth+1)
		default:
			coef[t.id] += sign
		}
		return true
	}
	if hi.Sort.Kind != SBV || hi.Sort.W != 64 || !walk(hi, 1, 0) || !walk(lo, -1, 0) {
		return 0, false
	}
	for _, v := range coef {
		if v != 0 {
			return 0, false
		}
	}
	return c, true
}

func wsumApp(row, lo, hi *Term) *Term {
	if row.Op == "ite" {
		return Ite(row.Args[0], wsumApp(row.Args[1], lo, hi), wsumApp(row.Args[2], lo, hi))
	}
	return App("spec|wsum", BVSort(64), row, lo, hi)
}

// oc16 is DEFINED (not computed) as the unique function on naturals below 2^63 with
//   (A1) oc16(x) < 65535,  (A3) x < 65535 ⇒ oc16(x) = x,  (A2) oc16(x + 65535·q) = oc16(x),
// i.e. x mod 65535. A1 and A3 are instantiated for every application; A2 is applied
// explicitly (`apply oc16_period(x, q)`), because solvers decide bvurem facts very slowly.
var builtinLemmas = map[string]func(args []Value) *Term{
	"oc16_period": func(args []Value) *Term {
		x, q := args[0].(Sc).T, args[1].(Sc).T
		if x.Sort.W != 64 || q.Sort.W != 64 {
			specErr("oc16_period takes two uint64 values")
		}
		small := And(ULe(x, BVi(1<<48, 64)), ULe(q, BVi(1<<32, 64)))
		return Implies(small, Eq(App("spec|oc16", BVSort(64), Add(x, Mul(BVi(65535, 64), q))), App("spec|oc16", BVSort(64), x)))
	},
}

func init() {
	revealAxioms["spec|oc16"] = func(app *Term) []*Term {
		return []*Term{Eq(app, URem(app.Args[0], BVi(65535, 64)))}
	}
	specAxioms["spec|oc16"] = func(app *Term) []*Term {
		x := app.Args[0]
		return []*Term{ULt(app, BVi(65535, 64)), Implies(ULt(x, BVi(65535, 64)), Eq(app, x)),
			// one period above the identity range (x mod 65535 for 65535 <= x < 131070)
			Implies(And(ULe(BVi(65535, 64), x), ULt(x, BVi(131070, 64))), Eq(app, Sub(x, BVi(65535, 64))))}
	}
	specAxioms["spec|wsum"] = func(app *Term) []*Term {
		row, lo, hi := app.Args[0], app.Args[1], app.Args[2]
		n := Sub(hi, lo)
		odd := Eq(BAnd(n, BVi(1, 64)), BVi(1, 64))
		b16 := func(i *Term) *Term {
			return ZExt(Concat(Select(row, i), Select(row, Add(i, BVi(1, 64)))), 64)
		}
		last := Sub(hi, BVi(1, 64))
		last2 := Sub(hi, BVi(2, 64))
		small := And(SLe(n, BVi(1<<32, 64)), SLe(BVi(0, 64), lo), SLe(lo, BVi(1<<42, 64)))
		// a range of constant small length is the explicit sum of its words (complete definition
		// in one step; reads through stores at syntactically different offsets fold away)
		if k, ok := constDiff(hi, lo); ok && k >= 0 && k <= 64 {
			sum := BVi(0, 64)
			for j := int64(0); j+1 < k; j += 2 {
				sum = Add(sum, b16(Add(lo, BVi(j, 64))))
			}
			if k%2 == 1 {
				sum = Add(sum, Shl(ZExt(Select(row, Add(lo, BVi(k-1, 64))), 64), BVi(8, 64)))
			}
			return []*Term{Implies(small, Eq(app, sum))}
		}
		var frame []*Term
		// a range whose length is not syntactically constant but turns out to be 4 or 8 (fixed
		// ICMP/UDP headers handed over as slices): the explicit sum again (the definition
		// unrolled; saves the rounds of peeling)
		for _, k := range []int64{4, 8} {
			sum := BVi(0, 64)
			for j := int64(0); j+1 < k; j += 2 {
				sum = Add(sum, b16(Add(lo, BVi(j, 64))))
			}
			frame = append(frame, Implies(And(small, Eq(n, BVi(k, 64))), Eq(app, sum)))
		}
		if row.Op == "store" {
			// the sum depends only on row[lo..hi): a store outside that range does not change it
			i := row.Args[1]
			frame = append(frame, Implies(Or(SLt(i, lo), SLe(hi, i)), Eq(app, wsumApp(row.Args[0], lo, hi))))
		}
		return append(frame, []*Term{
			Implies(SLe(hi, lo), Eq(app, BVi(0, 64))),
			Implies(And(SLt(lo, hi), small, odd), Eq(app, Add(wsumApp(row, lo, last), Shl(ZExt(Select(row, last), 64), BVi(8, 64))))),
			Implies(And(SLt(lo, hi), small, Not(odd)), Eq(app, Add(wsumApp(row, lo, last2), b16(last2)))),
			Implies(And(SLe(lo, hi), small), ULe(app, Mul(BVi(65535, 64), LShr(Add(n, BVi(1, 64)), BVi(1, 64))))),
		}...)
	}
}

// ---- vtotal: total length of a range of a slice of slices ----
//
// vtotal(lenrow, lo, hi) = Σ lenrow[k], lo <= k < hi, where lenrow is the "len" leaf row of
// the backing array of a [][]T. Defined by peeling at either end; a store outside the
// range does not change it.

func vtotalApp(row, lo, hi *Term) *Term {
	if row.Op == "ite" {
		return Ite(row.Args[0], vtotalApp(row.Args[1], lo, hi), vtotalApp(row.Args[2], lo, hi))
	}
	return App("spec|vtotal", BVSort(64), row, lo, hi)
}

func lenRow(env *SpecEnv, v Value) (row, off, ln *Term) {
	sl, ok := v.(SlV)
	if !ok {
		specErr("vsum/vtotal needs a slice of slices, got %T", v)
	}
	et := sl.Ty.Underlying().(*types.Slice).Elem()
	if _, isSl := et.Underlying().(*types.Slice); !isSl {
		specErr("vsum/vtotal needs a slice of slices")
	}
	name := "E|" + typeKey(et) + "|len"
	srt := ArraySort(RefSort, ArraySort(IntSort, IntSort))
	return Select(env.st.heap(name, srt), sl.Arr), sl.Off, sl.Len
}

func init() {
	specAxioms["spec|vtotal"] = func(app *Term) []*Term {
		row, lo, hi := app.Args[0], app.Args[1], app.Args[2]
		one := BVi(1, 64)
		small := And(SLe(BVi(0, 64), lo), SLe(hi, BVi(1<<42, 64)))
		out := []*Term{
			Implies(SLe(hi, lo), Eq(app, BVi(0, 64))),
			Implies(And(SLt(lo, hi), small), Eq(app, Add(vtotalApp(row, lo, Sub(hi, one)), Select(row, Sub(hi, one))))),
			Implies(And(SLt(lo, hi), small), Eq(app, Add(Select(row, lo), vtotalApp(row, Add(lo, one), hi)))),
			// lengths stored in a Go heap are non-negative; totals are assumed below 2^50
			And(SLe(BVi(0, 64), app), SLe(app, BVi(1<<50, 64))),
		}
		if row.Op == "store" {
			i := row.Args[1]
			out = append(out, Implies(Or(SLt(i, lo), SLe(hi, i)), Eq(app, vtotalApp(row.Args[0], lo, hi))))
		}
		return out
	}
}

// ---- bcount: number of true entries of a boolean field over a range of a slice of structs ----

func bcountApp(row, lo, hi *Term) *Term {
	if row.Op == "ite" {
		return Ite(row.Args[0], bcountApp(row.Args[1], lo, hi), bcountApp(row.Args[2], lo, hi))
	}
	return App("spec|bcount", BVSort(64), row, lo, hi)
}

func init() {
	specAxioms["spec|bcount"] = func(app *Term) []*Term {
		row, lo, hi := app.Args[0], app.Args[1], app.Args[2]
		one, z := BVi(1, 64), BVi(0, 64)
		b2i := func(b *Term) *Term { return Ite(b, one, z) }
		small := And(SLe(z, lo), SLe(hi, BVi(1<<42, 64)))
		n := Ite(SLt(lo, hi), Sub(hi, lo), z)
		out := []*Term{
			Implies(SLe(hi, lo), Eq(app, z)),
			Implies(And(SLt(lo, hi), small), Eq(app, Add(bcountApp(row, lo, Sub(hi, one)), b2i(Select(row, Sub(hi, one)))))),
			Implies(And(SLt(lo, hi), small), Eq(app, Add(b2i(Select(row, lo)), bcountApp(row, Add(lo, one), hi)))),
			Implies(small, And(SLe(z, app), SLe(app, n))),
		}
		if row.Op == "store" {
			i, v, r0 := row.Args[1], row.Args[2], row.Args[0]
			out = append(out,
				Implies(Or(SLt(i, lo), SLe(hi, i)), Eq(app, bcountApp(r0, lo, hi))),
				Implies(And(SLe(lo, i), SLt(i, hi), small), Eq(app, Add(Sub(bcountApp(r0, lo, hi), b2i(Select(r0, i))), b2i(v)))))
		}
		return out
	}
	// countb(s, field): number of elements of slice s whose boolean field is true
	specLibraryLate["countb"] = func(env *SpecEnv, x []ast.Expr) Value {
		sl, ok := env.eval(x[0]).(SlV)
		if !ok {
			specErr("countb needs a slice")
		}
		id, ok := x[1].(*ast.Ident)
		if !ok {
			specErr("countb(slice, fieldname)")
		}
		et := sl.Ty.Underlying().(*types.Slice).Elem()
		name := "E|" + typeKey(et) + "|" + id.Name
		row := Select(env.st.heap(name, ArraySort(RefSort, ArraySort(IntSort, BoolSort))), sl.Arr)
		return Sc{bcountApp(row, sl.Off, Add(sl.Off, sl.Len)), tInt}
	}
}

// specLibraryLate: library forms that take unevaluated arguments (field names etc.)
var specLibraryLate = map[string]func(env *SpecEnv, args []ast.Expr) Value{}

func intArg(v Value) *Term {
	s, ok := v.(Sc)
	if !ok {
		specErr("expected integer argument")
	}
	if s.Ty == untypedInt {
		return s.T
	}
	return toInt64(s)
}

// byteAt reads byte i of a byte slice or string in the current spec state.
func byteAt(env *SpecEnv, b Value, i *Term) *Term {
	switch x := b.(type) {
	case SlV:
		return env.st.load(elemLoc(x, i)).(Sc).T
	case StrV:
		return strByte(x.S, i)
	case PtrV:
		if at, ok := x.L.Ty.Underlying().(*types.Array); ok && x.L.Kind == LArr {
			return env.st.load(Loc{Kind: LElem, Root: at.Elem(), Arr: x.L.Arr, Idx: i, Ty: at.Elem()}).(Sc).T
		}
	case ArrV:
		return Select(x.Leaves[0], i)
	}
	specErr("byteat/be16 on %T", b)
	return nil
}

func specBE(n int) func(env *SpecEnv, args []Value) Value {
	return func(env *SpecEnv, args []Value) Value {
		i := intArg(args[1])
		var t *Term
		for k := 0; k < n; k++ {
			b := byteAt(env, args[0], Add(i, BVi(int64(k), 64)))
			if t == nil {
				t = b
			} else {
				t = Concat(t, b)
			}
		}
		ty := map[int]types.Type{2: tU16, 4: tU32, 8: tU64}[n]
		return Sc{t, ty}
	}
}

func specLE(n int) func(env *SpecEnv, args []Value) Value {
	return func(env *SpecEnv, args []Value) Value {
		i := intArg(args[1])
		var t *Term
		for k := 0; k < n; k++ {
			b := byteAt(env, args[0], Add(i, BVi(int64(k), 64)))
			if t == nil {
				t = b
			} else {
				t = Concat(b, t)
			}
		}
		ty := map[int]types.Type{2: tU16, 4: tU32, 8: tU64}[n]
		return Sc{t, ty}
	}
}

func specMinMax(isMin bool) func(env *SpecEnv, args []Value) Value {
	return func(env *SpecEnv, args []Value) Value {
		a, b := unify(args[0], args[1])
		x, y := a.(Sc), b.(Sc)
		ty := x.Ty
		if ty == untypedInt {
			ty = types.Typ[types.Int64]
		}
		_, signed, _ := intInfo(ty)
		var lt *Term
		if signed {
			lt = SLt(x.T, y.T)
		} else {
			lt = ULt(x.T, y.T)
		}
		if isMin {
			return Sc{Ite(lt, x.T, y.T), x.Ty}
		}
		return Sc{Ite(lt, y.T, x.T), x.Ty}
	}
}
