package main

// Library of specification functions usable in contracts.

import (
	"go/ast"
	"go/parser"
	"go/types"
)

func parseExprString(s string) (ast.Expr, error) { return parser.ParseExpr(s) }

var tU8 = types.Typ[types.Uint8]
var tU16 = types.Typ[types.Uint16]
var tU32 = types.Typ[types.Uint32]
var tU64 = types.Typ[types.Uint64]

var specLibrary map[string]func(env *SpecEnv, args []Value) Value

func init() {
	specLibrary = map[string]func(env *SpecEnv, args []Value) Value{
		"be16":  specBE(2),
		"be32":  specBE(4),
		"be64":  specBE(8),
		"le16":  specLE(2),
		"imin":  specMinMax(true),
		"imax":  specMinMax(false),
		"byteat": func(env *SpecEnv, args []Value) Value { return Sc{byteAt(env, args[0], intArg(args[1])), tU8} },
	}
}

func intArg(v Value) *Term {
	s, ok := v.(Sc)
	if !ok {
		specErr("expected integer argument")
	}
	if s.Ty == untypedInt {
		return s.T
	}
	return toInt64(s)
}

// byteAt reads byte i of a byte slice or string in the current spec state.
func byteAt(env *SpecEnv, b Value, i *Term) *Term {
	switch x := b.(type) {
	case SlV:
		return env.st.load(elemLoc(x, i)).(Sc).T
	case StrV:
		return strByte(x.S, i)
	case PtrV:
		if at, ok := x.L.Ty.Underlying().(*types.Array); ok && x.L.Kind == LArr {
			return env.st.load(Loc{Kind: LElem, Root: at.Elem(), Arr: x.L.Arr, Idx: i, Ty: at.Elem()}).(Sc).T
		}
	case ArrV:
		return Select(x.Leaves[0], i)
	}
	specErr("byteat/be16 on %T", b)
	return nil
}

func specBE(n int) func(env *SpecEnv, args []Value) Value {
	return func(env *SpecEnv, args []Value) Value {
		i := intArg(args[1])
		var t *Term
		for k := 0; k < n; k++ {
			b := byteAt(env, args[0], Add(i, BVi(int64(k), 64)))
			if t == nil {
				t = b
			} else {
				t = Concat(t, b)
			}
		}
		ty := map[int]types.Type{2: tU16, 4: tU32, 8: tU64}[n]
		return Sc{t, ty}
	}
}

func specLE(n int) func(env *SpecEnv, args []Value) Value {
	return func(env *SpecEnv, args []Value) Value {
		i := intArg(args[1])
		var t *Term
		for k := 0; k < n; k++ {
			b := byteAt(env, args[0], Add(i, BVi(int64(k), 64)))
			if t == nil {
				t = b
			} else {
				t = Concat(b, t)
			}
		}
		ty := map[int]types.Type{2: tU16, 4: tU32, 8: tU64}[n]
		return Sc{t, ty}
	}
}

func specMinMax(isMin bool) func(env *SpecEnv, args []Value) Value {
	return func(env *SpecEnv, args []Value) Value {
		a, b := unify(args[0], args[1])
		x, y := a.(Sc), b.(Sc)
		ty := x.Ty
		if ty == untypedInt {
			ty = types.Typ[types.Int64]
		}
		_, signed, _ := intInfo(ty)
		var lt *Term
		if signed {
			lt = SLt(x.T, y.T)
		} else {
			lt = ULt(x.T, y.T)
		}
		if isMin {
			return Sc{Ite(lt, x.T, y.T), x.Ty}
		}
		return Sc{Ite(lt, y.T, x.T), x.Ty}
	}
}
