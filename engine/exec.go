package main

// Forward symbolic execution of go/ssa functions with state merging at joins,
// loops cut at invariants, and calls replaced by contracts (or inlined).

import (
	"fmt"
	"go/constant"
	"go/token"
	"go/types"
	"math/big"
	"sort"
	"strings"

	"golang.org/x/tools/go/ssa"
)

type Obligation struct {
	Fn      string
	Kind    string // bounds, nil, div, panic, pre, post, inv-entry, inv-step, frame, assert, lemma, typeassert, cover
	Name    string // stable name: <fn>#<kind>@<detail>
	Pos     token.Position
	Hyp     *Term
	Goal    *Term
	Lazy    []*LazyForall
	Skolems []*Term
	Props   []string
	Cover   bool // a cover query: expected SAT
	Src     string
	Reveal  []string
	Bounded string // non-empty: obligation of a bounded stand-in, never counted as proved
	// result
	Status string // proved, failed, unknown
	Solver string
	Ms     int64
	Model  map[string]string
	Output string
	Retried bool // decided (or not) only in the low-concurrency retry phase
	Unconfirmed bool // thorough tier: proved by one solver, no second solver decided it in time
}

type LazyForall struct {
	Guard *Term
	Sort  *Sort
	Body  func(k *Term) *Term
	Desc  string
	Uses  []*Term // explicit instantiation terms
}

type Frame struct {
	fn       *ssa.Function
	regs     map[ssa.Value]Value
	freevars []Value
	defers   []*deferRec
	phiCells map[*ssa.Phi]*Cell
	cells    map[*ssa.Alloc]*Cell // local allocs (current incarnation)
	named    map[string][]*Cell   // source-named locals (several declarations may share a name), in source order
	namedHeap map[string]PtrV     // source-named locals that escape (allocated on the heap): the latest allocation
	depth    int
	loopOrd  map[*ssa.BasicBlock]int
	params   map[string]Value // entry values
	parent   *Frame
	isSpec   bool
	unrollAll int // >0: every loop executed in this frame is unrolled that many times
	liveCells map[ssa.Value]*Cell
}

type deferRec struct {
	call *ssa.CallCommon
	flag *Cell
	pos  token.Pos
}

type Exec struct {
	rename map[string]string // contract identifier -> name now declared at the same position (see declNames)
	callerParams map[string]Value // at_call evaluation: the caller's parameters (see `caller(x)`)
	P        *Prog
	fn       *ssa.Function // function under verification
	contract *Contract
	obls     []*Obligation
	lazy     []*LazyForall
	goalLazy []*LazyForall // quantified hypotheses of the goal currently being built
	goalHints []*Term      // instantiation terms offered by using(t, F) in the goal being built
	frameChecked map[*WriteRec]bool
	cardDone map[string]bool
	dry      int // >0: no obligations are recorded
	noObl    int
	notes    map[string]bool // abstractions that occurred
	entry    *State
	top      *Frame
	oblNames map[string]int
	havocLog *[]havocRec // scalar locations havocked by the contract being applied
	variants map[variantKey]*Term // loop variants evaluated at the loop head
}

func (ex *Exec) note(format string, args ...interface{}) {
	if ex.notes == nil {
		ex.notes = map[string]bool{}
	}
	ex.notes[fmt.Sprintf(format, args...)] = true
}

func (ex *Exec) addObl(kind, detail string, pos token.Pos, st *State, goal *Term, skolems []*Term) {
	if ex.noObl > 0 {
		// obligations suppressed while evaluating a specification: the hypotheses collected for
		// the goal being built stay pending
		return
	}
	gl := ex.goalLazy
	ex.goalLazy = nil
	gh := ex.goalHints
	ex.goalHints = nil
	if ex.dry > 0 {
		return
	}
	if goal == True || st.G == False {
		return
	}
	defer func() {
		n := len(ex.obls)
		ex.obls[n-1].Lazy = append(ex.obls[n-1].Lazy, gl...)
		ex.obls[n-1].Skolems = append(append([]*Term{}, ex.obls[n-1].Skolems...), gh...)
	}()
	name := fmt.Sprintf("%s#%s", ex.fn.String(), kind)
	if detail != "" {
		name += "@" + detail
	}
	if ex.oblNames == nil {
		ex.oblNames = map[string]int{}
	}
	ex.oblNames[name]++
	if n := ex.oblNames[name]; n > 1 {
		name = fmt.Sprintf("%s~%d", name, n)
	}
	o := &Obligation{Fn: ex.fn.String(), Kind: kind, Name: name, Hyp: st.G, Goal: goal, Skolems: skolems}
	if pos.IsValid() {
		o.Pos = ex.P.fset.Position(pos)
	}
	o.Lazy = append(o.Lazy, ex.lazy...)
	if ex.contract != nil {
		o.Props = ex.contract.Props
		o.Reveal = ex.contract.Reveal
		o.Bounded = ex.contract.Bounded
	}
	ex.obls = append(ex.obls, o)
}

// check records an obligation and then assumes the goal (assert-then-assume).
func (ex *Exec) check(kind, detail string, pos token.Pos, st *State, goal *Term) {
	ex.addObl(kind, detail, pos, st, goal, nil)
	st.assume(goal)
}

func (ex *Exec) posDetail(pos token.Pos, fr *Frame) string {
	// obligation names use the ordinal of the site within the function, not line numbers,
	// so that unrelated edits do not rename them; the position is kept separately.
	return ""
}

// ---------------------------------------------------------------------------
// function execution

type retRec struct {
	st  *State
	val Value
}

func newFrame(fn *ssa.Function, parent *Frame) *Frame {
	fr := &Frame{fn: fn, regs: map[ssa.Value]Value{}, phiCells: map[*ssa.Phi]*Cell{}, cells: map[*ssa.Alloc]*Cell{}, named: map[string][]*Cell{}, parent: parent, params: map[string]Value{}}
	if parent != nil {
		fr.depth = parent.depth + 1
		fr.isSpec = parent.isSpec
		fr.unrollAll = parent.unrollAll
	}
	return fr
}

// runFunction executes fn from st with the given arguments and returns the merged
// result and state at return (nil state if no return is reachable).
func (ex *Exec) runFunction(fr *Frame, st *State, args []Value) (Value, *State) {
	fn := fr.fn
	if len(fn.Blocks) == 0 {
		unsup("function %s has no body", fn)
	}
	for i, p := range fn.Params {
		fr.regs[p] = args[i]
		fr.params[p.Name()] = args[i]
	}
	rets := ex.runRegion(fr, st, fn.Blocks[0], nil, nil, nil)
	return mergeReturns(fn, rets)
}

func mergeReturns(fn *ssa.Function, rets []retRec) (Value, *State) {
	var out *State
	var val Value
	for _, r := range rets {
		if r.st.G == False {
			continue
		}
		if out == nil {
			out, val = r.st, r.val
			continue
		}
		c := pathSelector(out.G, r.st.G)
		if val != nil {
			val = iteValue(c, val, r.val)
		}
		out = mergeStates(out, r.st)
	}
	return val, out
}

type loopInfo struct {
	head    *ssa.BasicBlock
	body    map[*ssa.BasicBlock]bool
	latches []*ssa.BasicBlock
}

func findLoops(fn *ssa.Function) map[*ssa.BasicBlock]*loopInfo {
	loops := map[*ssa.BasicBlock]*loopInfo{}
	for _, b := range fn.Blocks {
		for _, s := range b.Succs {
			if s.Dominates(b) {
				li := loops[s]
				if li == nil {
					li = &loopInfo{head: s, body: map[*ssa.BasicBlock]bool{s: true}}
					loops[s] = li
				}
				li.latches = append(li.latches, b)
				// natural loop: all blocks that reach b without passing through s
				stack := []*ssa.BasicBlock{b}
				for len(stack) > 0 {
					x := stack[len(stack)-1]
					stack = stack[:len(stack)-1]
					if li.body[x] {
						continue
					}
					li.body[x] = true
					for _, p := range x.Preds {
						stack = append(stack, p)
					}
				}
			}
		}
	}
	return loops
}

func rpo(fn *ssa.Function, loops map[*ssa.BasicBlock]*loopInfo) []*ssa.BasicBlock {
	seen := map[*ssa.BasicBlock]bool{}
	var post []*ssa.BasicBlock
	var dfs func(b *ssa.BasicBlock)
	dfs = func(b *ssa.BasicBlock) {
		seen[b] = true
		for _, s := range b.Succs {
			if s.Dominates(b) { // back edge
				continue
			}
			if !seen[s] {
				dfs(s)
			}
		}
		post = append(post, b)
	}
	dfs(fn.Blocks[0])
	if fn.Recover != nil && !seen[fn.Recover] {
		// recover block is not executed (panics are failures)
	}
	for i, j := 0, len(post)-1; i < j; i, j = i+1, j-1 {
		post[i], post[j] = post[j], post[i]
	}
	return post
}

type fnInfo struct {
	loops map[*ssa.BasicBlock]*loopInfo
	order []*ssa.BasicBlock
	ord   map[*ssa.BasicBlock]int // loop ordinal (1-based, source order)
}

var fnInfos = map[*ssa.Function]*fnInfo{}

func infoOf(fn *ssa.Function) *fnInfo {
	if fi, ok := fnInfos[fn]; ok {
		return fi
	}
	fi := &fnInfo{loops: findLoops(fn)}
	fi.order = rpo(fn, fi.loops)
	var heads []*ssa.BasicBlock
	for h := range fi.loops {
		heads = append(heads, h)
	}
	sort.Slice(heads, func(i, j int) bool { return heads[i].Index < heads[j].Index })
	fi.ord = map[*ssa.BasicBlock]int{}
	for i, h := range heads {
		fi.ord[h] = i + 1
	}
	fnInfos[fn] = fi
	return fi
}

// runRegion executes blocks starting at start. If allowed != nil only blocks in it are
// executed and back edges to backTo are collected into *backs instead of being checked.
type edgeState struct {
	to *ssa.BasicBlock
	st *State
}

func (ex *Exec) runRegion(fr *Frame, st0 *State, start *ssa.BasicBlock, allowed map[*ssa.BasicBlock]bool, backs *[]*State, exits *[]edgeState) []retRec {
	fi := infoOf(fr.fn)
	in := map[*ssa.BasicBlock][]*State{}
	in[start] = []*State{st0}
	var rets []retRec
	pendingBacks := map[*ssa.BasicBlock]*State{}
	started := false
	for _, b := range fi.order {
		if b == start {
			started = true
		}
		if !started {
			continue
		}
		if allowed != nil && !allowed[b] {
			continue
		}
		var st *State
		for _, s := range in[b] {
			st = mergeStates(st, s)
		}
		delete(in, b)
		if st == nil || st.G == False {
			continue
		}
		st = st.clone()
		// registers that left an unrolled loop on several iterations travel in cells
		for v, c := range fr.liveCells {
			if cv, ok := st.Cells[c]; ok {
				fr.regs[v] = cv
			}
		}
		// phis
		for _, ins := range b.Instrs {
			phi, ok := ins.(*ssa.Phi)
			if !ok {
				break
			}
			if c := fr.phiCells[phi]; c != nil {
				if v, ok := st.Cells[c]; ok {
					fr.regs[phi] = v
				}
			}
		}
		isDryHead := allowed != nil && b == start
		if li := fi.loops[b]; li != nil && !isDryHead {
			if k := ex.unrollCount(fr, li); k > 0 {
				exs, rs := ex.unrollLoop(fr, st, li, k)
				rets = append(rets, rs...)
				for _, e := range exs {
					if allowed != nil && !allowed[e.to] {
						if exits != nil {
							*exits = append(*exits, e)
						}
						continue
					}
					in[e.to] = append(in[e.to], e.st)
				}
				continue
			}
			st = ex.enterLoop(fr, st, li)
			if st == nil {
				continue
			}
		}
		// instructions
		term := ex.execBlock(fr, st, b, &rets)
		if term == nil {
			continue
		}
		// successors
		addEdge := func(to *ssa.BasicBlock, s *State) {
			if s.G == False {
				return
			}
			// phi values along this edge
			for _, ins := range to.Instrs {
				phi, ok := ins.(*ssa.Phi)
				if !ok {
					break
				}
				idx := -1
				for i, p := range to.Preds {
					if p == b {
						idx = i
					}
				}
				c := fr.phiCells[phi]
				if c == nil {
					c = newCell("phi", phi.Type())
					fr.phiCells[phi] = c
				}
				s.Cells[c] = ex.val(fr, phi.Edges[idx])
			}
			if to.Dominates(b) { // back edge
				if allowed != nil && to == start {
					*backs = append(*backs, s)
					return
				}
				// the invariant is checked on each back edge (simpler queries); the frame condition
				// once, on the merged state
				ex.checkInvariant(fr, s, fi.loops[to], "inv-step")
				ex.frameObligations(fr, s, ex.contract, "loop-frame")
				return
			}
			if allowed != nil && !allowed[to] {
				if exits != nil {
					for _, v := range liveOut(fr.fn, allowed) {
						if rv, ok := fr.regs[v]; ok {
							if fr.liveCells == nil {
								fr.liveCells = map[ssa.Value]*Cell{}
							}
							c := fr.liveCells[v]
							if c == nil {
								c = newCell("live."+v.Name(), v.Type())
								fr.liveCells[v] = c
							}
							s.Cells[c] = rv
						}
					}
					*exits = append(*exits, edgeState{to, s})
				}
				return
			}
			in[to] = append(in[to], s)
		}
		switch t := term.(type) {
		case *ssa.Jump:
			addEdge(b.Succs[0], st)
		case *ssa.If:
			c := ex.val(fr, t.Cond).(Sc).T
			s1 := st.clone()
			s1.assume(c)
			s2 := st
			s2.assume(Not(c))
			addEdge(b.Succs[0], s1)
			addEdge(b.Succs[1], s2)
		}
	}
	var heads []*ssa.BasicBlock
	for h := range pendingBacks {
		heads = append(heads, h)
	}
	sort.Slice(heads, func(i, j int) bool { return heads[i].Index < heads[j].Index })
	for _, h := range heads {
		_ = pendingBacks[h]
	}
	return rets
}

// ---------------------------------------------------------------------------
// loops

// liveOut lists the SSA values defined inside the region that are used outside it.
func liveOut(fn *ssa.Function, body map[*ssa.BasicBlock]bool) []ssa.Value {
	var out []ssa.Value
	for b := range body {
		for _, ins := range b.Instrs {
			v, ok := ins.(ssa.Value)
			if !ok || v.Referrers() == nil {
				continue
			}
			for _, r := range *v.Referrers() {
				if !body[r.Block()] {
					out = append(out, v)
					break
				}
			}
		}
	}
	return out
}

func (ex *Exec) unrollCount(fr *Frame, li *loopInfo) int {
	if ls := ex.loopContract(fr, li); ls != nil && ls.Unroll > 0 && fr.unrollAll == 0 {
		return ls.Unroll
	}
	return fr.unrollAll
}

// unrollLoop executes the loop body up to k times; reaching the head a (k+1)-th time is an
// obligation (unwinding assertion), so a discharged unrolling is complete, not bounded.
func (ex *Exec) unrollLoop(fr *Frame, st *State, li *loopInfo, k int) ([]edgeState, []retRec) {
	var exits []edgeState
	var rets []retRec
	cur := st
	ord := infoOf(fr.fn).ord[li.head]
	for it := 0; ; it++ {
		if cur == nil || cur.G == False {
			break
		}
		var backs []*State
		rs := ex.runRegion(fr, cur, li.head, li.body, &backs, &exits)
		rets = append(rets, rs...)
		if it == k {
			// the body has run k times; the head may be evaluated once more but must exit
			saved := ex.noObl
			ex.noObl = 0
			for _, b := range backs {
				ex.addObl("unwind", fmt.Sprintf("%s.loop%d.%d", fnKey(fr.fn), ord, k), li.head.Instrs[0].Pos(), b, False, nil)
			}
			ex.noObl = saved
			break
		}
		cur = nil
		for _, b := range backs {
			cur = mergeStates(cur, b)
		}
	}
	return exits, rets
}

func (ex *Exec) loopContract(fr *Frame, li *loopInfo) *LoopSpec {
	c := ex.P.contractOf(fr.fn)
	if c == nil {
		return nil
	}
	return c.Loops[infoOf(fr.fn).ord[li.head]]
}

// rangeInvariant is the implicit invariant of a `for range slice` loop: the hidden index
// stays in [-1, len) (it is -1 before the first iteration and len-1 after the last).
func (ex *Exec) rangeInvariant(fr *Frame, st *State, li *loopInfo) *Term {
	if li.head.Comment != "rangeindex.loop" || len(li.head.Instrs) < 4 {
		return True
	}
	ld, ok1 := li.head.Instrs[0].(*ssa.UnOp)
	cmp, ok2 := li.head.Instrs[3].(*ssa.BinOp)
	if !ok1 || !ok2 || cmp.Op != token.LSS {
		return True
	}
	al, ok := ld.X.(*ssa.Alloc)
	if !ok {
		return True
	}
	c := fr.cells[al]
	if c == nil {
		return True
	}
	iv, ok := st.Cells[c].(Sc)
	if !ok {
		return True
	}
	lv, ok := fr.regs[cmp.Y].(Sc)
	if !ok {
		if cv, isC := cmp.Y.(*ssa.Const); isC {
			lv = ex.constVal(cv).(Sc)
		} else {
			return True
		}
	}
	m1 := BVi(-1, 64)
	return And(SLe(m1, iv.T), Or(SLt(iv.T, lv.T), Eq(iv.T, m1)))
}

func (ex *Exec) checkInvariant(fr *Frame, st *State, li *loopInfo, kind string) {
	if ri := ex.rangeInvariant(fr, st, li); ri != True {
		ex.addOblSk(kind, fmt.Sprintf("loop%d.range", infoOf(fr.fn).ord[li.head]), li.head.Instrs[0].Pos(), st, ri, nil, "implicit: -1 <= rangeindex < len")
	}
	ls := ex.loopContract(fr, li)
	if ls == nil {
		return
	}
	ord := infoOf(fr.fn).ord[li.head]
	for i, inv := range ls.Invariants {
		env := ex.specEnv(fr, st, ex.entryOf(fr), false)
		g := env.evalBool(inv.Expr)
		ex.addOblSk(kind, fmt.Sprintf("loop%d.%d", ord, i+1), li.head.Instrs[0].Pos(), st, g, env.skolems, inv.Src)
	}
	// termination: on a back edge the variant is smaller than it was at the loop head, where
	// it was non-negative
	if kind == "inv-step" {
		for i, d := range ls.Decreases {
			v0 := ex.variants[variantKey{li, i}]
			if v0 == nil {
				continue
			}
			env := ex.specEnv(fr, st, ex.entryOf(fr), false)
			v1, ok := env.eval(d.Expr).(Sc)
			if !ok || v1.T.Sort != v0.Sort {
				specErr("decreases: integer expression expected")
			}
			ex.addOblSk("variant", fmt.Sprintf("loop%d.%d", ord, i+1), li.head.Instrs[0].Pos(), st, And(SLe(BVi(0, v0.Sort.W), v0), SLt(v1.T, v0)), nil, d.Src)
		}
	}
}

type variantKey struct {
	li *loopInfo
	i  int
}

func (ex *Exec) addOblSk(kind, detail string, pos token.Pos, st *State, goal *Term, sk []*Term, src string) {
	n := len(ex.obls)
	ex.addObl(kind, detail, pos, st, goal, sk)
	if len(ex.obls) > n {
		ex.obls[len(ex.obls)-1].Src = src
	}
}

func (ex *Exec) entryOf(fr *Frame) *State {
	return ex.entry
}

func (ex *Exec) enterLoop(fr *Frame, st *State, li *loopInfo) *State {
	ls := ex.loopContract(fr, li)
	fi := infoOf(fr.fn)
	ord := fi.ord[li.head]
	// 1. invariant on entry
	ex.checkInvariant(fr, st, li, "inv-entry")
	// 2. discover what the body modifies: dry run from a fully havocked state
	probe := st.clone()
	for c, v := range probe.Cells {
		if nv, ok := tryHavoc(c.Name, v); ok {
			probe.Cells[c] = nv
		}
	}
	marks := map[string]*Term{}
	for _, n := range probe.heapNames() {
		marks[n] = probe.Heap[n]
	}
	var backs []*State
	ex.dry++
	savedRegs := fr.regs
	fr.regs = map[ssa.Value]Value{}
	for k, v := range savedRegs {
		fr.regs[k] = v
	}
	savedLazy := len(ex.lazy)
	func() {
		defer func() {
			ex.dry--
			fr.regs = savedRegs
			ex.lazy = ex.lazy[:savedLazy]
		}()
		probe.G = True
		ex.runRegion(fr, probe, li.head, li.body, &backs, nil)
	}()
	modCells := map[*Cell]bool{}
	modHeap := map[string]bool{}
	allocMod := false
	epochMod := false
	for _, bs := range backs {
		for c, v := range bs.Cells {
			if pv, ok := probe.Cells[c]; ok && !sameValue(pv, v) {
				modCells[c] = true
			}
		}
		for n, t := range bs.Heap {
			if t != probe.heap(n, t.Sort) {
				modHeap[n] = true
			}
		}
		if bs.Alloc != probe.Alloc {
			allocMod = true
		}
		if bs.Epoch != probe.Epoch {
			epochMod = true
		}
	}
	_ = marks
	// 3. havoc
	out := st.clone()
	if epochMod {
		// the body contains a call about which nothing (or nothing but a set of preserved
		// struct families) is known: the whole heap, or everything but those families, may differ
		total := false
		var but map[string]bool
		inProbe := map[*WriteRec]bool{}
		for _, w := range probe.Writes {
			inProbe[w] = true
		}
		for _, bs := range backs {
			for _, w := range bs.Writes {
				if inProbe[w] {
					continue
				}
				switch w.Kind {
				case "everything":
					total = true
				case "everything_but":
					ks := map[string]bool{}
					for _, k := range strings.Split(w.Key, ",") {
						if k != "" {
							ks[k] = true
						}
					}
					if but == nil {
						but = ks
					} else {
						for k := range but {
							if !ks[k] {
								delete(but, k)
							}
						}
					}
				}
			}
		}
		if total || but == nil {
			ex.havocEverything(out)
			modHeap = map[string]bool{}
		} else {
			var keys []string
			for k := range but {
				keys = append(keys, k)
			}
			ex.havocEverythingBut(out, keys)
			// families of the preserved types that the body writes explicitly are havocked below
			for n := range modHeap {
				parts := strings.SplitN(n, "|", 3)
				if !(strings.HasPrefix(n, "G|ghost") || ((parts[0] == "H" || parts[0] == "E") && (but[parts[1]] || but[strings.TrimPrefix(parts[1], "*")]))) {
					delete(modHeap, n)
				}
			}
		}
	}
	for c := range modCells {
		v := out.Cells[c]
		nv, ok := tryHavoc(fmt.Sprintf("%s@L%d", c.Name, ord), v)
		if !ok {
			unsup("loop %d of %s modifies local %s holding a non-flattenable value", ord, fr.fn, c.Name)
		}
		out.Cells[c] = nv
		out.assume(out.wf(nv))
	}
	var hn []string
	for n := range modHeap {
		hn = append(hn, n)
	}
	sort.Strings(hn)
	for _, n := range hn {
		nh := Fresh(fmt.Sprintf("%s@L%d", n, ord), heapSorts[n])
		out.setHeap(n, nh)
		ex.assumeLoopFrame(out, n, nh)
	}
	if allocMod {
		out.advanceAlloc("alloc@L")
	}
	// 4. assume the invariant
	out.assume(ex.rangeInvariant(fr, out, li))
	if ls != nil {
		for _, inv := range ls.Invariants {
			env := ex.specEnv(fr, out, ex.entryOf(fr), true)
			out.assume(env.evalBool(inv.Expr))
		}
		// value of the variant(s) at the loop head
		for i, d := range ls.Decreases {
			env := ex.specEnv(fr, out, ex.entryOf(fr), true)
			if sc, ok := env.eval(d.Expr).(Sc); ok {
				if ex.variants == nil {
					ex.variants = map[variantKey]*Term{}
				}
				ex.variants[variantKey{li, i}] = sc.T
			}
		}
	}
	return out
}

func sameValue(a, b Value) bool {
	defer func() { recover() }()
	switch x := a.(type) {
	case PtrV:
		y, ok := b.(PtrV)
		if !ok {
			return false
		}
		return locEqual(x.L, y.L) == True
	case FnV:
		y, ok := b.(FnV)
		return ok && x.Fn == y.Fn
	case StV:
		y, ok := b.(StV)
		if !ok || len(x.F) != len(y.F) {
			return false
		}
		for i := range x.F {
			if !sameValue(x.F[i], y.F[i]) {
				return false
			}
		}
		return true
	}
	la, lb := flatten(a), flatten(b)
	if len(la) != len(lb) {
		return false
	}
	for i := range la {
		if la[i] != lb[i] {
			return false
		}
	}
	return true
}

func tryHavoc(name string, v Value) (nv Value, ok bool) {
	defer func() {
		if r := recover(); r != nil {
			if _, isU := r.(unsupported); isU {
				nv, ok = v, false
				return
			}
			panic(r)
		}
	}()
	if v == nil {
		return nil, false
	}
	if p, isP := v.(PtrV); isP && (p.L.Kind != LHeap || len(p.L.Path) != 0) {
		return v, false
	}
	if _, isF := v.(FnV); isF {
		return v, false
	}
	flatten(v) // panics if not flattenable
	return freshValue(name, v.Type()), true
}

// ---------------------------------------------------------------------------
// instructions

func (ex *Exec) val(fr *Frame, v ssa.Value) Value {
	switch x := v.(type) {
	case *ssa.Const:
		return ex.constVal(x)
	case *ssa.Function:
		return FnV{Fn: x, Ty: x.Type()}
	case *ssa.Global:
		return PtrV{Loc{Kind: LGlobal, Glob: x.String(), Root: x.Type().(*types.Pointer).Elem(), Ty: x.Type().(*types.Pointer).Elem()}, x.Type()}
	case *ssa.Builtin:
		return FnV{Fn: x, Ty: x.Type()}
	case *ssa.FreeVar:
		for i, fv := range fr.fn.FreeVars {
			if fv == x {
				return fr.freevars[i]
			}
		}
	}
	if r, ok := fr.regs[v]; ok {
		return r
	}
	unsup("use of undefined SSA value %s (%T) in %s", v.Name(), v, fr.fn)
	return nil
}

func (ex *Exec) constVal(c *ssa.Const) Value {
	t := c.Type()
	if c.Value == nil {
		return zeroValue(t)
	}
	switch {
	case isBool(t):
		return Sc{Bool(constant.BoolVal(c.Value)), t}
	case isString(t):
		return StrV{ex.P.strConst(constant.StringVal(c.Value)), t}
	case isFloat(t):
		f, _ := constant.Float64Val(c.Value)
		return Sc{App("floatconst", BVSort(64), BVu(uint64(int64(f*1000003)), 64)), t}
	}
	w, _, ok := intInfo(t)
	if !ok {
		unsup("constant of type %s", t)
	}
	bi, _ := new(big.Int).SetString(c.Value.ExactString(), 10)
	if bi == nil {
		unsup("constant %s", c.Value)
	}
	return Sc{BV(bi, w), t}
}

func retype(v Value, t types.Type) Value {
	switch x := v.(type) {
	case Sc:
		x.Ty = t
		return x
	case StrV:
		x.Ty = t
		return x
	case SlV:
		x.Ty = t
		return x
	case PtrV:
		x.Ty = t
		if pt, ok := t.Underlying().(*types.Pointer); ok {
			x.L.Ty = pt.Elem()
			if len(x.L.Path) == 0 && (x.L.Kind == LHeap || x.L.Kind == LElem) {
				x.L.Root = pt.Elem()
			}
		}
		return x
	case StV:
		x.Ty = t
		return x
	case ArrV:
		x.Ty = t
		return x
	case IfV:
		x.Ty = t
		return x
	case FnV:
		x.Ty = t
		return x
	}
	return v
}

// execBlock runs the non-phi instructions; returns the terminator if control continues.
func (ex *Exec) execBlock(fr *Frame, st *State, b *ssa.BasicBlock, rets *[]retRec) ssa.Instruction {
	for _, ins := range b.Instrs {
		if st.G == False {
			return nil
		}
		switch x := ins.(type) {
		case *ssa.Phi:
			if _, ok := fr.regs[x]; !ok {
				unsup("phi without incoming value in %s", fr.fn)
			}
		case *ssa.DebugRef:
		case *ssa.Alloc:
			ex.execAlloc(fr, st, x)
		case *ssa.Store:
			p := ex.val(fr, x.Addr).(PtrV)
			ex.nilCheck(fr, st, p, x.Pos())
			st.store(p.L, ex.val(fr, x.Val))
		case *ssa.UnOp:
			fr.regs[x] = ex.execUnOp(fr, st, x)
		case *ssa.BinOp:
			fr.regs[x] = ex.binop(st, x.Op, ex.val(fr, x.X), ex.val(fr, x.Y), x.Type(), x.Pos())
		case *ssa.Call:
			fr.regs[x] = ex.execCall(fr, st, &x.Call, x.Pos(), x.Type())
		case *ssa.ChangeType:
			fr.regs[x] = retype(ex.val(fr, x.X), x.Type())
		case *ssa.Convert:
			fr.regs[x] = ex.convert(st, ex.val(fr, x.X), x.Type())
		case *ssa.MakeInterface:
			fr.regs[x] = ex.makeInterface(st, ex.val(fr, x.X), x.Type())
		case *ssa.ChangeInterface:
			fr.regs[x] = retype(ex.val(fr, x.X), x.Type())
		case *ssa.TypeAssert:
			fr.regs[x] = ex.typeAssert(fr, st, x)
		case *ssa.Extract:
			fr.regs[x] = ex.val(fr, x.Tuple).(TupV).E[x.Index]
		case *ssa.FieldAddr:
			p := ex.val(fr, x.X).(PtrV)
			ex.nilCheck(fr, st, p, x.Pos())
			l := p.L
			l.Path = append(append([]PathElem{}, l.Path...), PathElem{Field: x.Field})
			l.Ty = x.Type().(*types.Pointer).Elem()
			fr.regs[x] = PtrV{l, x.Type()}
		case *ssa.Field:
			fr.regs[x] = ex.val(fr, x.X).(StV).F[x.Field]
		case *ssa.IndexAddr:
			fr.regs[x] = ex.indexAddr(fr, st, x)
		case *ssa.Index:
			fr.regs[x] = ex.index(fr, st, x)
		case *ssa.Slice:
			fr.regs[x] = ex.slice(fr, st, x)
		case *ssa.MakeSlice:
			fr.regs[x] = ex.makeSlice(st, x.Type(), ex.val(fr, x.Len).(Sc), ex.val(fr, x.Cap).(Sc), x.Pos())
		case *ssa.MakeMap:
			r := st.allocRef()
			mt := x.Type().Underlying().(*types.Map)
			ex.mapInit(st, mt, r)
			fr.regs[x] = Sc{r, x.Type()}
		case *ssa.MakeChan:
			r := st.allocRef()
			fr.regs[x] = Sc{r, x.Type()}
			// the capacity of a channel never changes: a global function of the reference
			if sz, ok := ex.val(fr, x.Size).(Sc); ok && sz.T.Sort.Kind == SBV {
				szT := sz.T
				if szT.Sort.W < 64 {
					szT = SExt(szT, 64)
				}
				if szT.Sort.W == 64 {
					st.assume(Eq(Select(chanCapVar(), r), szT))
				}
			}
		case *ssa.MakeClosure:
			fv := FnV{Fn: x.Fn, Ty: x.Type()}
			for _, b := range x.Bindings {
				fv.Bind = append(fv.Bind, ex.val(fr, b))
			}
			fr.regs[x] = fv
		case *ssa.Lookup:
			fr.regs[x] = ex.lookup(fr, st, x)
		case *ssa.MapUpdate:
			ex.mapUpdate(fr, st, x)
		case *ssa.Range:
			unsup("range over map or string in %s", fr.fn)
		case *ssa.Next:
			unsup("range over map or string in %s", fr.fn)
		case *ssa.Defer:
			flag := newCell("defer", types.Typ[types.Bool])
			fr.defers = append(fr.defers, &deferRec{call: &x.Call, flag: flag, pos: x.Pos()})
			st.Cells[flag] = Sc{True, types.Typ[types.Bool]}
			// arguments are evaluated now: pin them
			for _, a := range x.Call.Args {
				ex.val(fr, a)
			}
		case *ssa.RunDefers:
			ex.runDefers(fr, st)
		case *ssa.Go:
			ex.note("go statement in %s: spawned body verified separately, no effect on the spawner", fr.fn)
		case *ssa.Send:
			ex.note("channel send in %s: abstracted (no effect on modelled state)", fr.fn)
			if inv := ex.chanInv(st, x.X.Type(), ex.val(fr, x.X)); inv != nil {
				ex.check("chaninv", "send", x.Pos(), st, inv)
			}
			ex.atSend(fr, st, x.X.Type(), ex.val(fr, x.X), x.Pos())
		case *ssa.Select:
			fr.regs[x] = ex.execSelect(fr, st, x)
		case *ssa.Panic:
			ex.panicSite(fr, st, x)
			st.G = False
			return nil
		case *ssa.Return:
			var v Value
			switch len(x.Results) {
			case 0:
			case 1:
				v = ex.val(fr, x.Results[0])
			default:
				tv := TupV{Ty: fr.fn.Signature.Results()}
				for _, r := range x.Results {
					tv.E = append(tv.E, ex.val(fr, r))
				}
				v = tv
			}
			*rets = append(*rets, retRec{st, v})
			return nil
		case *ssa.Jump, *ssa.If:
			return ins
		case *ssa.SliceToArrayPointer:
			unsup("slice to array pointer conversion")
		default:
			unsup("instruction %T in %s", ins, fr.fn)
		}
	}
	return nil
}

// privateLocalArray: a non-escaping local array that is only read and written element-wise
// or as a whole (never sliced, never passed by address): it can live in a local cell, where
// loop heads and calls of unknown effect do not touch it.
func privateLocalArray(x *ssa.Alloc) bool {
	if x.Heap || x.Referrers() == nil {
		return false
	}
	for _, r := range *x.Referrers() {
		switch u := r.(type) {
		case *ssa.DebugRef:
		case *ssa.Store:
			if u.Addr != ssa.Value(x) {
				return false
			}
		case *ssa.UnOp:
			if u.Op != token.MUL {
				return false
			}
		case *ssa.IndexAddr:
			if u.X != ssa.Value(x) || u.Referrers() == nil {
				return false
			}
			if _, nested := u.Type().(*types.Pointer).Elem().Underlying().(*types.Array); nested {
				return false
			}
			for _, rr := range *u.Referrers() {
				switch w := rr.(type) {
				case *ssa.DebugRef:
				case *ssa.Store:
					if w.Addr != ssa.Value(u) {
						return false
					}
				case *ssa.UnOp:
					if w.Op != token.MUL {
						return false
					}
				default:
					return false
				}
			}
		default:
			return false
		}
	}
	return true
}

func (ex *Exec) execAlloc(fr *Frame, st *State, x *ssa.Alloc) {
	et := x.Type().(*types.Pointer).Elem()
	if at, ok := et.Underlying().(*types.Array); ok && !(privateLocalArray(x)) {
		// arrays live in the element family from the start, so that slicing them aliases
		r := st.allocRef()
		names, sorts := elemFamilies(at.Elem())
		for i, n := range names {
			st.setHeap(n, Store(st.heap(n, sorts[i]), r, zeroOf(sorts[i].Elem)))
		}
		fr.regs[x] = PtrV{Loc{Kind: LArr, Arr: r, Root: et, Ty: et}, x.Type()}
		return
	}
	if x.Heap {
		r := st.allocRef()
		l := Loc{Kind: LHeap, Root: et, Ref: r, Ty: et}
		st.store(l, zeroValue(et))
		fr.regs[x] = PtrV{l, x.Type()}
		if x.Comment != "" {
			if fr.namedHeap == nil {
				fr.namedHeap = map[string]PtrV{}
			}
			fr.namedHeap[x.Comment] = PtrV{l, x.Type()}
		}
		return
	}
	name := x.Comment
	// a non-escaping local re-declared on every loop iteration is the same storage each time
	c := fr.cells[x]
	if c == nil {
		c = newCell(name, et)
	}
	fr.cells[x] = c
	if name != "" {
		fr.addNamed(name, c, x.Pos())
	}
	st.Cells[c] = zeroValue(et)
	fr.regs[x] = PtrV{Loc{Kind: LCell, Cell: c, Root: et, Ty: et}, x.Type()}
}

// addNamed records the storage of a source-level local. Several declarations may share a name
// (two loops both declaring i): they are kept in source order.
func (fr *Frame) addNamed(name string, c *Cell, pos token.Pos) {
	for _, o := range fr.named[name] {
		if o == c {
			return
		}
	}
	c.Pos = pos
	l := append(fr.named[name], c)
	sort.SliceStable(l, func(i, j int) bool { return l[i].Pos < l[j].Pos })
	fr.named[name] = l
}

// namedCell resolves a source-level name in a state: the latest declaration (in source order)
// whose storage exists in that state.
func (fr *Frame) namedCell(name string, st *State) *Cell {
	l := fr.named[name]
	for i := len(l) - 1; i >= 0; i-- {
		if st == nil {
			return l[i]
		}
		if _, ok := st.Cells[l[i]]; ok {
			return l[i]
		}
	}
	return nil
}

func (ex *Exec) nilCheck(fr *Frame, st *State, p PtrV, pos token.Pos) {
	if p.L.Kind == LChoice {
		var cs []*Term
		if a := p.L.alt(true); a.Kind == LHeap {
			cs = append(cs, Implies(p.L.Sel, Neq(a.Ref, BVi(0, 32))))
		}
		if b := p.L.alt(false); b.Kind == LHeap {
			cs = append(cs, Implies(Not(p.L.Sel), Neq(b.Ref, BVi(0, 32))))
		}
		if len(cs) > 0 {
			ex.check("nil", "", pos, st, And(cs...))
		}
		return
	}
	if p.L.Kind == LHeap {
		ex.check("nil", "", pos, st, Neq(p.L.Ref, BVi(0, 32)))
	}
}

func (ex *Exec) execUnOp(fr *Frame, st *State, x *ssa.UnOp) Value {
	v := ex.val(fr, x.X)
	switch x.Op {
	case token.MUL:
		p := v.(PtrV)
		ex.nilCheck(fr, st, p, x.Pos())
		if p.L.Kind == LGlobal {
			return ex.loadGlobal(st, p.L)
		}
		return st.load(p.L)
	case token.NOT:
		return Sc{Not(v.(Sc).T), x.Type()}
	case token.SUB:
		if isFloat(x.Type()) {
			return Sc{App("fneg", BVSort(64), v.(Sc).T), x.Type()}
		}
		return Sc{Neg(v.(Sc).T), x.Type()}
	case token.XOR:
		return Sc{BNot(v.(Sc).T), x.Type()}
	case token.ARROW:
		ex.note("channel receive in %s: abstracted (fresh value)", fr.fn)
		if x.CommaOk {
			tv := TupV{Ty: x.Type()}
			tt := x.Type().(*types.Tuple)
			fv := freshValue("recv", tt.At(0).Type())
			st.assume(st.wf(fv))
			okv := freshValue("recvok", tt.At(1).Type())
			tv.E = []Value{fv, okv}
			// a value that was really received satisfies the channel element invariant
			if inv := ex.chanInv(st, tt.At(0).Type(), fv); inv != nil {
				st.assume(Implies(okv.(Sc).T, inv))
			}
			return tv
		}
		fv := freshValue("recv", x.Type())
		st.assume(st.wf(fv))
		return fv
	}
	unsup("unary op %s", x.Op)
	return nil
}

func (ex *Exec) loadGlobal(st *State, l Loc) Value {
	if v, ok := ex.P.immutableGlobal(l); ok {
		return v
	}
	return st.load(l)
}

func (ex *Exec) binop(st *State, op token.Token, a, b Value, rt types.Type, pos token.Pos) Value {
	switch op {
	case token.EQL:
		return Sc{valuesEqual(a, b), rt}
	case token.NEQ:
		return Sc{Not(valuesEqual(a, b)), rt}
	}
	if sa, ok := a.(StrV); ok {
		sb := b.(StrV)
		switch op {
		case token.ADD:
			r := Fresh("strcat", StrSort64)
			st.assume(strWF(r))
			st.assume(Eq(strLen(r), Add(strLen(sa.S), strLen(sb.S))))
			return StrV{r, rt}
		default:
			return Sc{App("strcmp_"+op.String(), BoolSort, sa.S, sb.S), rt}
		}
	}
	x, y := a.(Sc), b.(Sc)
	if isFloat(x.Ty) {
		name := "f" + sanitize(op.String())
		switch op {
		case token.LSS, token.LEQ, token.GTR, token.GEQ:
			return Sc{App(name, BoolSort, x.T, y.T), rt}
		}
		return Sc{App(name, BVSort(64), x.T, y.T), rt}
	}
	if isBool(x.Ty) {
		switch op {
		case token.AND, token.LAND:
			return Sc{And(x.T, y.T), rt}
		case token.OR, token.LOR:
			return Sc{Or(x.T, y.T), rt}
		}
		unsup("bool binop %s", op)
	}
	w, signed, ok := intInfo(x.Ty)
	if !ok {
		unsup("binop %s on %s", op, x.Ty)
	}
	switch op {
	case token.ADD:
		return Sc{Add(x.T, y.T), rt}
	case token.SUB:
		return Sc{Sub(x.T, y.T), rt}
	case token.MUL:
		return Sc{Mul(x.T, y.T), rt}
	case token.QUO, token.REM:
		ex.check("div", "", pos, st, Neq(y.T, BVi(0, w)))
		if op == token.QUO {
			if signed {
				return Sc{SDiv(x.T, y.T), rt}
			}
			return Sc{UDiv(x.T, y.T), rt}
		}
		if signed {
			return Sc{SRem(x.T, y.T), rt}
		}
		return Sc{URem(x.T, y.T), rt}
	case token.AND:
		return Sc{BAnd(x.T, y.T), rt}
	case token.OR:
		return Sc{BOr(x.T, y.T), rt}
	case token.XOR:
		return Sc{BXor(x.T, y.T), rt}
	case token.AND_NOT:
		return Sc{BAnd(x.T, BNot(y.T)), rt}
	case token.SHL, token.SHR:
		return Sc{shiftOp(op, x, y), rt}
	case token.LSS:
		if signed {
			return Sc{SLt(x.T, y.T), rt}
		}
		return Sc{ULt(x.T, y.T), rt}
	case token.LEQ:
		if signed {
			return Sc{SLe(x.T, y.T), rt}
		}
		return Sc{ULe(x.T, y.T), rt}
	case token.GTR:
		if signed {
			return Sc{SLt(y.T, x.T), rt}
		}
		return Sc{ULt(y.T, x.T), rt}
	case token.GEQ:
		if signed {
			return Sc{SLe(y.T, x.T), rt}
		}
		return Sc{ULe(y.T, x.T), rt}
	}
	unsup("binop %s", op)
	return nil
}

// shiftOp implements Go shifts: count is unsigned (or non-negative), counts >= width give 0 / sign fill.
func shiftOp(op token.Token, x, y Sc) *Term {
	w, signed, _ := intInfo(x.Ty)
	yw := y.T.Sort.W
	var cnt *Term
	big := False
	if yw > w {
		big = Not(ULt(y.T, BVi(int64(w), yw)))
		cnt = Extract(w-1, 0, y.T)
	} else {
		cnt = ZExt(y.T, w)
		if (1 << uint(min(yw, 30))) > w {
			big = Not(ULt(cnt, BVi(int64(w), w)))
		}
	}
	if op == token.SHL {
		return Ite(big, BVi(0, w), Shl(x.T, cnt))
	}
	if signed {
		return Ite(big, AShr(x.T, BVi(int64(w-1), w)), AShr(x.T, cnt))
	}
	return Ite(big, BVi(0, w), LShr(x.T, cnt))
}

func (ex *Exec) convert(st *State, v Value, t types.Type) Value {
	switch x := v.(type) {
	case Sc:
		sw, ssigned, sok := intInfo(x.Ty)
		dw, _, dok := intInfo(t)
		switch {
		case sok && dok:
			if dw <= sw {
				return Sc{Extract(dw-1, 0, x.T), t}
			}
			if ssigned {
				return Sc{SExt(x.T, dw), t}
			}
			return Sc{ZExt(x.T, dw), t}
		case sok && isFloat(t):
			return Sc{App(fmt.Sprintf("i2f%d", sw), BVSort(64), x.T), t}
		case isFloat(x.Ty) && dok:
			return Sc{App(fmt.Sprintf("f2i%d", dw), BVSort(dw), x.T), t}
		case isFloat(x.Ty) && isFloat(t):
			return Sc{x.T, t}
		case sok && isString(t):
			r := Fresh("runestr", StrSort64)
			st.assume(strWF(r))
			return StrV{r, t}
		}
		if _, ok := t.Underlying().(*types.Pointer); ok {
			// unsafe.Pointer -> *T
			unsup("unsafe pointer conversion")
		}
		return Sc{x.T, t}
	case StrV:
		if _, ok := t.Underlying().(*types.Slice); ok {
			// []byte(s): fresh array holding the bytes of s
			n := strLen(x.S)
			r := st.allocRef()
			name := "E|uint8|"
			srt := ArraySort(RefSort, ArraySort(IntSort, BVSort(8)))
			row := App("strrow", ArraySort(IntSort, BVSort(8)), x.S)
			st.setHeap(name, Store(st.heap(name, srt), r, row))
			s := x.S
			ex.addLazy(&LazyForall{Guard: True, Sort: IntSort, Desc: "[]byte(string) contents", Body: func(k *Term) *Term {
				return Implies(And(SLe(BVi(0, 64), k), SLt(k, n)), Eq(Select(row, k), strByte(s, k)))
			}})
			return SlV{r, BVi(0, 64), n, n, t}
		}
		x.Ty = t
		return x
	case SlV:
		if isString(t) {
			name := "E|uint8|"
			srt := ArraySort(RefSort, ArraySort(IntSort, BVSort(8)))
			row := Select(st.heap(name, srt), x.Arr)
			f := Fresh("bytes2str", StrSort64)
			s := Ite(Eq(x.Len, BVi(0, 64)), BVi(0, 64), f)
			st.assume(Eq(strLen(s), x.Len))
			st.assume(strWF(s))
			off := x.Off
			ln := x.Len
			ex.addLazy(&LazyForall{Guard: True, Sort: IntSort, Desc: "string([]byte) contents", Body: func(k *Term) *Term {
				return Implies(And(SLe(BVi(0, 64), k), SLt(k, ln)), Eq(strByte(f, k), Select(row, Add(off, k))))
			}})
			return StrV{s, t}
		}
		x.Ty = t
		return x
	}
	return retype(v, t)
}

// lazySink, when set (while a query is being built), receives quantified facts that arise
// inside the body of another quantified fact being instantiated (nested quantifiers).
var lazySink *[]*LazyForall

func (ex *Exec) addLazy(l *LazyForall) {
	if lazySink != nil {
		*lazySink = append(*lazySink, l)
		return
	}
	ex.lazy = append(ex.lazy, l)
}

func (ex *Exec) makeInterface(st *State, v Value, t types.Type) Value {
	tag := ex.P.typeTag(v.Type())
	switch x := v.(type) {
	case PtrV:
		if x.L.Kind == LHeap && len(x.L.Path) == 0 {
			return IfV{Tag: tag, Ref: x.L.Ref, Ty: t, Conc: v}
		}
		// interior or local pointer: no plain reference; known only through Conc
		r := Fresh("boxptr", RefSort)
		st.assume(Neq(r, BVi(0, 32)))
		return IfV{Tag: tag, Ref: r, Ty: t, Conc: v}
	case Sc:
		if x.T.Sort == RefSort {
			return IfV{Tag: tag, Ref: x.T, Ty: t, Conc: v}
		}
	case IfV:
		return IfV{Tag: x.Tag, Ref: x.Ref, Ty: t, Conc: x.Conc}
	}
	// value payload: boxing allocates an immutable copy in the heap family of its type
	if r, ok := ex.boxValue(st, v); ok {
		return IfV{Tag: tag, Ref: r, Ty: t, Conc: v}
	}
	ex.note("interface boxing of %s: payload abstracted", v.Type())
	r := Fresh("box", RefSort)
	st.assume(ULt(r, st.Alloc))
	return IfV{Tag: tag, Ref: r, Ty: t, Conc: v}
}

func (ex *Exec) boxValue(st *State, v Value) (r *Term, ok bool) {
	defer func() {
		if e := recover(); e != nil {
			if _, isU := e.(unsupported); isU {
				ok = false
				return
			}
			panic(e)
		}
	}()
	flatten(v)
	r = st.allocRef()
	st.store(Loc{Kind: LHeap, Root: v.Type(), Ref: r, Ty: v.Type()}, v)
	return r, true
}

func (ex *Exec) typeAssert(fr *Frame, st *State, x *ssa.TypeAssert) Value {
	iv := ex.val(fr, x.X).(IfV)
	var ok *Term
	var res Value
	if _, isIface := x.AssertedType.Underlying().(*types.Interface); isIface {
		ok = Fresh("implements", BoolSort)
		if iv.Conc != nil {
			// the concrete type is known: does it implement the interface?
			ok = Bool(types.Implements(iv.Conc.Type(), x.AssertedType.Underlying().(*types.Interface)))
		}
		st.assume(Implies(ok, Neq(iv.Tag, BVi(0, 32))))
		res = IfV{Tag: iv.Tag, Ref: iv.Ref, Ty: x.AssertedType, Conc: iv.Conc}
	} else {
		ok = Eq(iv.Tag, ex.P.typeTag(x.AssertedType))
		if iv.Conc != nil && types.Identical(iv.Conc.Type(), x.AssertedType) {
			res = iv.Conc
		} else {
			switch u := x.AssertedType.Underlying().(type) {
			case *types.Pointer:
				res = PtrV{Loc{Kind: LHeap, Root: u.Elem(), Ref: iv.Ref, Ty: u.Elem()}, x.AssertedType}
			default:
				res = ex.unbox(st, iv, x.AssertedType)
			}
		}
	}
	if x.CommaOk {
		zero := zeroValue(x.AssertedType)
		rv := iteValue(ok, res, zero)
		return TupV{E: []Value{rv, Sc{ok, types.Typ[types.Bool]}}, Ty: x.Type()}
	}
	ex.check("typeassert", "", x.Pos(), st, ok)
	return res
}

// unbox reads the boxed copy of a value of type t held by interface value iv.
func (ex *Exec) unbox(st *State, iv IfV, t types.Type) (v Value) {
	defer func() {
		if e := recover(); e != nil {
			if _, isU := e.(unsupported); isU {
				v = freshValue("unboxed", t)
				st.assume(st.wf(v))
				ex.note("type assertion to %s: payload abstracted", t)
				return
			}
			panic(e)
		}
	}()
	return st.load(Loc{Kind: LHeap, Root: t, Ref: iv.Ref, Ty: t})
}

func (ex *Exec) indexAddr(fr *Frame, st *State, x *ssa.IndexAddr) Value {
	iv := ex.val(fr, x.Index).(Sc)
	i := toInt64(iv)
	switch b := ex.val(fr, x.X).(type) {
	case SlV:
		ex.check("bounds", "", x.Pos(), st, And(SLe(BVi(0, 64), i), SLt(i, b.Len)))
		return PtrV{elemLoc(b, i), x.Type()}
	case PtrV: // pointer to array
		ex.nilCheck(fr, st, b, x.Pos())
		at := b.L.Ty.Underlying().(*types.Array)
		ex.check("bounds", "", x.Pos(), st, And(SLe(BVi(0, 64), i), SLt(i, BVi(at.Len(), 64))))
		if b.L.Kind == LArr {
			return PtrV{Loc{Kind: LElem, Root: at.Elem(), Arr: b.L.Arr, Idx: i, Ty: at.Elem()}, x.Type()}
		}
		if er := embeddedArrayRef(b.L); er != nil {
			return PtrV{Loc{Kind: LElem, Root: at.Elem(), Arr: er, Idx: i, Ty: at.Elem()}, x.Type()}
		}
		l := b.L
		l.Path = append(append([]PathElem{}, l.Path...), PathElem{Idx: i})
		l.Ty = at.Elem()
		return PtrV{l, x.Type()}
	}
	unsup("IndexAddr on %T", ex.val(fr, x.X))
	return nil
}

// embeddedArrayRef: if l designates an array-typed field (reached by field steps only) of a
// heap struct whose element leaves live in the element family, the embedded reference.
func embeddedArrayRef(l Loc) *Term {
	if l.Kind != LHeap || len(l.Path) == 0 {
		return nil
	}
	for _, p := range l.Path {
		if p.Idx != nil {
			return nil
		}
	}
	prefix, _, ty := pathString(l.Root, l.Path)
	at, ok := ty.Underlying().(*types.Array)
	if !ok {
		return nil
	}
	// nested arrays inside the element are not relocated
	for _, lf := range leavesOf(at) {
		if lf.ElemKey == "" {
			return nil
		}
	}
	return embRef(typeKey(l.Root), prefix, l.Ref)
}

func toInt64(v Sc) *Term {
	w, signed, ok := intInfo(v.Ty)
	if !ok {
		unsup("index of type %s", v.Ty)
	}
	if w == 64 {
		return v.T
	}
	if signed {
		return SExt(v.T, 64)
	}
	return ZExt(v.T, 64)
}

func (ex *Exec) index(fr *Frame, st *State, x *ssa.Index) Value {
	i := toInt64(ex.val(fr, x.Index).(Sc))
	switch b := ex.val(fr, x.X).(type) {
	case StrV:
		ex.check("bounds", "", x.Pos(), st, And(SLe(BVi(0, 64), i), SLt(i, strLen(b.S))))
		return Sc{strByte(b.S, i), x.Type()}
	case ArrV:
		at := b.Ty.Underlying().(*types.Array)
		ex.check("bounds", "", x.Pos(), st, And(SLe(BVi(0, 64), i), SLt(i, BVi(at.Len(), 64))))
		return cellGet(b, []PathElem{{Idx: i}})
	}
	unsup("Index on %T", ex.val(fr, x.X))
	return nil
}

func (ex *Exec) slice(fr *Frame, st *State, x *ssa.Slice) Value {
	z := BVi(0, 64)
	get := func(v ssa.Value, def *Term) *Term {
		if v == nil {
			return def
		}
		return toInt64(ex.val(fr, v).(Sc))
	}
	switch b := ex.val(fr, x.X).(type) {
	case SlV:
		lo := get(x.Low, z)
		hi := get(x.High, b.Len)
		mx := get(x.Max, b.Cap)
		ex.check("bounds", "slice", x.Pos(), st, And(SLe(z, lo), SLe(lo, hi), SLe(hi, mx), SLe(mx, b.Cap)))
		out := SlV{b.Arr, Add(b.Off, lo), Sub(hi, lo), Sub(mx, lo), x.Type()}
		return out
	case StrV:
		n := strLen(b.S)
		lo := get(x.Low, z)
		hi := get(x.High, n)
		ex.check("bounds", "slice", x.Pos(), st, And(SLe(z, lo), SLe(lo, hi), SLe(hi, n)))
		f := Fresh("substr", StrSort64)
		ln := Sub(hi, lo)
		s := Ite(Eq(ln, z), z, f)
		s = Ite(And(Eq(lo, z), Eq(hi, n)), b.S, s)
		st.assume(Eq(strLen(s), ln))
		st.assume(strWF(s))
		src := b.S
		ex.addLazy(&LazyForall{Guard: True, Sort: IntSort, Desc: "substring contents", Body: func(k *Term) *Term {
			return Implies(And(SLe(z, k), SLt(k, ln)), Eq(strByte(f, k), strByte(src, Add(lo, k))))
		}})
		return StrV{s, x.Type()}
	case PtrV: // pointer to array
		ex.nilCheck(fr, st, b, x.Pos())
		at := b.L.Ty.Underlying().(*types.Array)
		n := BVi(at.Len(), 64)
		lo := get(x.Low, z)
		hi := get(x.High, n)
		mx := get(x.Max, n)
		ex.check("bounds", "slice", x.Pos(), st, And(SLe(z, lo), SLe(lo, hi), SLe(hi, mx), SLe(mx, n)))
		// Slicing an array: the array must live in an element family. Local/heap arrays of
		// scalars are copied into a fresh backing array that *is* the array from now on.
		sl := ex.arrayAsSlice(fr, st, b, at)
		return SlV{sl.Arr, Add(sl.Off, lo), Sub(hi, lo), Sub(mx, lo), x.Type()}
	}
	unsup("Slice of %T", ex.val(fr, x.X))
	return nil
}

// arrayAsSlice gives a slice view aliasing the array that p points to.
// Arrays that get sliced are relocated on first slicing: their storage becomes a backing
// array in the element family and the cell records the alias.
func (ex *Exec) arrayAsSlice(fr *Frame, st *State, p PtrV, at *types.Array) SlV {
	if p.L.Kind == LArr {
		return SlV{p.L.Arr, BVi(0, 64), BVi(at.Len(), 64), BVi(at.Len(), 64), types.NewSlice(at.Elem())}
	}
	if er := embeddedArrayRef(p.L); er != nil {
		return SlV{er, BVi(0, 64), BVi(at.Len(), 64), BVi(at.Len(), 64), types.NewSlice(at.Elem())}
	}
	if p.L.Kind != LCell || len(p.L.Path) != 0 {
		unsup("slicing an array that is not a whole local variable")
	}
	// one backing array per cell, created lazily; the cell content is written through.
	key := p.L.Cell
	if sl, ok := fr.arrAlias()[key]; ok {
		return sl
	}
	cur := st.Cells[key].(ArrV)
	r := st.allocRef()
	st2 := types.NewSlice(at.Elem())
	ls := leavesOf(at.Elem())
	for i, lf := range ls {
		name := "E|" + typeKey(at.Elem()) + "|" + lf.Name
		srt := ArraySort(RefSort, ArraySort(IntSort, lf.Sort))
		st.setHeap(name, Store(st.heap(name, srt), r, cur.Leaves[i]))
	}
	sl := SlV{r, BVi(0, 64), BVi(at.Len(), 64), BVi(at.Len(), 64), st2}
	fr.arrAlias()[key] = sl
	return sl
}

var arrAliases = map[*Frame]map[*Cell]SlV{}

func (fr *Frame) arrAlias() map[*Cell]SlV {
	m := arrAliases[fr]
	if m == nil {
		m = map[*Cell]SlV{}
		arrAliases[fr] = m
	}
	return m
}

func (ex *Exec) makeSlice(st *State, t types.Type, ln, cp Sc, pos token.Pos) Value {
	l, c := toInt64(ln), toInt64(cp)
	ex.check("bounds", "makeslice", pos, st, And(SLe(BVi(0, 64), l), SLe(l, c), SLe(c, maxLen)))
	r := st.allocRef()
	et := t.Underlying().(*types.Slice).Elem()
	for _, lf := range leavesOf(et) {
		name := "E|" + typeKey(et) + "|" + lf.Name
		srt := ArraySort(RefSort, ArraySort(IntSort, lf.Sort))
		st.setHeap(name, Store(st.heap(name, srt), r, ConstArr(ArraySort(IntSort, lf.Sort), zeroOf(lf.Sort))))
	}
	return SlV{r, BVi(0, 64), l, c, t}
}

func (ex *Exec) panicSite(fr *Frame, st *State, x *ssa.Panic) {
	c := ex.P.contractOf(ex.fn)
	if fr.fn == ex.fn && c != nil && len(c.PanicsWhen) > 0 {
		var cs []*Term
		for _, pw := range c.PanicsWhen {
			env := ex.specEnv(fr, ex.entry, ex.entry, false)
			cs = append(cs, env.evalBool(pw.Expr))
		}
		ex.addObl("panic", "allowed", x.Pos(), st, Or(cs...), nil)
		return
	}
	ex.addObl("panic", "", x.Pos(), st, False, nil)
}

func (ex *Exec) runDefers(fr *Frame, st *State) {
	for i := len(fr.defers) - 1; i >= 0; i-- {
		d := fr.defers[i]
		fv, ok := st.Cells[d.flag]
		if !ok {
			continue
		}
		flag := fv.(Sc).T
		if flag == False {
			continue
		}
		if flag == True {
			ex.execCall(fr, st, d.call, d.pos, nil)
			continue
		}
		a := st.clone()
		a.assume(flag)
		ex.execCall(fr, a, d.call, d.pos, nil)
		b := st.clone()
		b.assume(Not(flag))
		m := mergeStates(a, b)
		*st = *m
	}
}

// chanInv: the channel element invariant of a named element type T, written in T's package as
// the specification macro `chaninv_T(x)`: checked where a value is sent, assumed for a value
// that was received. It may talk about the value only (not about heap contents, which can
// change between send and receive).
func (ex *Exec) chanInv(st *State, t types.Type, v Value) *Term {
	nt, ok := t.(*types.Named)
	if !ok || nt.Obj().Pkg() == nil {
		return nil
	}
	m := ex.P.macros[nt.Obj().Pkg().Path()+":chaninv_"+nt.Obj().Name()]
	if m == nil || len(m.Params) != 1 {
		return nil
	}
	env := &SpecEnv{ex: ex, st: st, vars: map[string]Value{m.Params[0]: v}, ctx: True, pkg: nt.Obj().Pkg(), assume: true}
	return env.evalBool(m.Body)
}

// atSend checks the at_send clauses of the function under verification for a value sent on a
// channel (x = the value; the function's parameters and old() are available).
func (ex *Exec) atSend(fr *Frame, st *State, t types.Type, v Value, pos token.Pos) {
	nt, ok := t.(*types.Named)
	if !ok || ex.contract == nil || fr.fn != ex.fn {
		return
	}
	for i, rq := range ex.contract.AtSend[nt.Obj().Name()] {
		env := ex.specEnv(fr, st, ex.entry, false)
		env.useLocals = false
		env.vars["x"] = v
		g := env.evalBool(rq.Expr)
		ex.addOblSk("atsend", fmt.Sprintf("%s.%d", nt.Obj().Name(), i+1), pos, st, g, env.skolems, rq.Src)
	}
}

func (ex *Exec) execSelect(fr *Frame, st *State, x *ssa.Select) Value {
	ex.note("select in %s: nondeterministic choice, received values fresh", fr.fn)
	tt := x.Type().(*types.Tuple)
	tv := TupV{Ty: tt}
	n := len(x.States)
	idx := Fresh("select", IntSort)
	lo := BVi(0, 64)
	if !x.Blocking {
		lo = BVi(-1, 64)
	}
	st.assume(And(SLe(lo, idx), SLt(idx, BVi(int64(n), 64))))
	tv.E = append(tv.E, Sc{idx, tt.At(0).Type()})
	// values offered for sending satisfy the channel element invariant
	for _, s := range x.States {
		if s.Send != nil {
			if inv := ex.chanInv(st, s.Send.Type(), ex.val(fr, s.Send)); inv != nil {
				ex.check("chaninv", "send", x.Pos(), st, inv)
			}
			ex.atSend(fr, st, s.Send.Type(), ex.val(fr, s.Send), x.Pos())
		}
	}
	for i := 1; i < tt.Len(); i++ {
		fv := freshValue("selrecv", tt.At(i).Type())
		st.assume(st.wf(fv))
		tv.E = append(tv.E, fv)
	}
	return tv
}

// ---------------------------------------------------------------------------
// maps

// chanCapVar: capacity of channels by reference (immutable, so not part of the heap).
func chanCapVar() *Term { return Var("chancap", ArraySort(RefSort, IntSort)) }

func mapFam(mt *types.Map) string {
	return "M|" + typeKey(mt.Key()) + "|" + typeKey(mt.Elem())
}

func keyTerm(k Value) *Term {
	ls := flatten(k)
	var t *Term
	for _, l := range ls {
		x := l
		if x.Sort == BoolSort {
			x = Ite(x, BVi(1, 1), BVi(0, 1))
		}
		if x.Sort.Kind != SBV {
			unsup("map key leaf of sort %s", x.Sort)
		}
		if t == nil {
			t = x
		} else {
			t = Concat(t, x)
		}
	}
	if t == nil {
		return BVi(0, 1)
	}
	return t
}

func keySort(kt types.Type) *Sort {
	w := 0
	for _, l := range leavesOf(kt) {
		switch l.Sort.Kind {
		case SBool:
			w++
		case SBV:
			w += l.Sort.W
		default:
			unsup("map key of type %s", kt)
		}
	}
	if w == 0 {
		w = 1
	}
	return BVSort(w)
}

func (ex *Exec) mapInit(st *State, mt *types.Map, r *Term) {
	ks := keySort(mt.Key())
	fam := mapFam(mt)
	pn := fam + "|present"
	psrt := ArraySort(RefSort, ArraySort(ks, BoolSort))
	st.setHeap(pn, Store(st.heap(pn, psrt), r, ConstArr(ArraySort(ks, BoolSort), False)))
	cn := fam + "|card"
	csrt := ArraySort(RefSort, IntSort)
	st.setHeap(cn, Store(st.heap(cn, csrt), r, BVi(0, 64)))
}

func (ex *Exec) mapPresent(st *State, mt *types.Map, r, k *Term) *Term {
	ks := keySort(mt.Key())
	pn := mapFam(mt) + "|present"
	return Select(Select(st.heap(pn, ArraySort(RefSort, ArraySort(ks, BoolSort))), r), k)
}

func (ex *Exec) mapCard(st *State, mt *types.Map, r *Term) *Term {
	cn := mapFam(mt) + "|card"
	c := Select(st.heap(cn, ArraySort(RefSort, IntSort)), r)
	// cardinality axioms of this map in this heap: card >= 0; a present key implies card > 0
	// (instantiated at the keys occurring in a query); card > 0 implies some key is present.
	ks := keySort(mt.Key())
	pn := mapFam(mt) + "|present"
	prow := Select(st.heap(pn, ArraySort(RefSort, ArraySort(ks, BoolSort))), r)
	key := fmt.Sprintf("card %d/%d", prow.id, c.id)
	have := false
	for _, l := range ex.lazy {
		if l.Desc == key {
			have = true
		}
	}
	if !have {
		z := BVi(0, 64)
		wit := App("mapwitness|"+mapFam(mt), ks, prow)
		wfSnap := &State{Alloc: st.Alloc}
		ex.addLazy(&LazyForall{Guard: True, Sort: ks, Desc: key, Uses: []*Term{wit}, Body: func(k *Term) *Term {
			// keys stored in a map are well-formed values of the key type
			kwf := Implies(Select(prow, k), wfSnap.wf(valueFromKey(mt.Key(), k)))
			return And(SLe(z, c), Implies(Select(prow, k), SLt(z, c)), Implies(SLt(z, c), Select(prow, wit)), kwf)
		}})
	}
	return c
}

func (ex *Exec) mapGet(st *State, mt *types.Map, r, k *Term) Value {
	ks := keySort(mt.Key())
	fam := mapFam(mt)
	ls := leavesOf(mt.Elem())
	ts := make([]*Term, len(ls))
	for i, lf := range ls {
		n := fam + "|v|" + lf.Name
		ts[i] = Select(Select(st.heap(n, ArraySort(RefSort, ArraySort(ks, lf.Sort))), r), k)
	}
	if len(ls) == 0 {
		return fromLeaves(mt.Elem(), nil)
	}
	return fromLeaves(mt.Elem(), ts)
}

func (ex *Exec) lookup(fr *Frame, st *State, x *ssa.Lookup) Value {
	switch m := ex.val(fr, x.X).(type) {
	case StrV:
		i := toInt64(ex.val(fr, x.Index).(Sc))
		ex.check("bounds", "", x.Pos(), st, And(SLe(BVi(0, 64), i), SLt(i, strLen(m.S))))
		return Sc{strByte(m.S, i), x.Type()}
	case Sc:
		mt := m.Ty.Underlying().(*types.Map)
		k := keyTerm(ex.val(fr, x.Index))
		return ex.mapLookup(st, mt, m.T, k, x.CommaOk, x.Type())
	}
	unsup("Lookup on %T", ex.val(fr, x.X))
	return nil
}

func (ex *Exec) mapLookup(st *State, mt *types.Map, r, k *Term, commaOk bool, rt types.Type) Value {
	pres := And(Neq(r, BVi(0, 32)), ex.mapPresent(st, mt, r, k))
	v := ex.mapGet(st, mt, r, k)
	st.assume(st.wf(v))
	// card axioms at this key
	card := ex.mapCard(st, mt, r)
	st.assume(SLe(BVi(0, 64), card))
	st.assume(Implies(ex.mapPresent(st, mt, r, k), SLt(BVi(0, 64), card)))
	val := iteValue(pres, v, zeroValue(mt.Elem()))
	if commaOk {
		return TupV{E: []Value{val, Sc{pres, types.Typ[types.Bool]}}, Ty: rt}
	}
	return val
}

func (ex *Exec) mapUpdate(fr *Frame, st *State, x *ssa.MapUpdate) {
	m := ex.val(fr, x.Map).(Sc)
	mt := m.Ty.Underlying().(*types.Map)
	ex.check("nil", "mapwrite", x.Pos(), st, Neq(m.T, BVi(0, 32)))
	k := keyTerm(ex.val(fr, x.Key))
	ex.mapStore(st, mt, m.T, k, ex.val(fr, x.Value))
}

func (ex *Exec) mapStore(st *State, mt *types.Map, r, k *Term, v Value) {
	st.logWrite(&WriteRec{Kind: "map", Key: mapFam(mt), Ref: r})
	ks := keySort(mt.Key())
	fam := mapFam(mt)
	was := ex.mapPresent(st, mt, r, k)
	pn := fam + "|present"
	ph := st.heap(pn, ArraySort(RefSort, ArraySort(ks, BoolSort)))
	st.setHeap(pn, Store(ph, r, Store(Select(ph, r), k, True)))
	cn := fam + "|card"
	ch := st.heap(cn, ArraySort(RefSort, IntSort))
	st.assume(SLe(BVi(0, 64), Select(ch, r)))
	st.assume(SLt(Select(ch, r), maxLen))
	st.setHeap(cn, Store(ch, r, Ite(was, Select(ch, r), Add(Select(ch, r), BVi(1, 64)))))
	ls := leavesOf(mt.Elem())
	vs := []*Term{}
	if len(ls) > 0 {
		vs = flatten(v)
	}
	for i, lf := range ls {
		n := fam + "|v|" + lf.Name
		h := st.heap(n, ArraySort(RefSort, ArraySort(ks, lf.Sort)))
		st.setHeap(n, Store(h, r, Store(Select(h, r), k, vs[i])))
	}
}

func (ex *Exec) mapDelete(st *State, mt *types.Map, r, k *Term) {
	st.logWrite(&WriteRec{Kind: "map", Key: mapFam(mt), Ref: r})
	ks := keySort(mt.Key())
	fam := mapFam(mt)
	was := And(Neq(r, BVi(0, 32)), ex.mapPresent(st, mt, r, k))
	pn := fam + "|present"
	ph := st.heap(pn, ArraySort(RefSort, ArraySort(ks, BoolSort)))
	cn := fam + "|card"
	ch := st.heap(cn, ArraySort(RefSort, IntSort))
	// present ⇒ card > 0 (axiom at this key)
	st.assume(Implies(was, SLt(BVi(0, 64), Select(ch, r))))
	st.setHeap(pn, Ite(Eq(r, BVi(0, 32)), ph, Store(ph, r, Store(Select(ph, r), k, False))))
	st.setHeap(cn, Store(ch, r, Ite(was, Sub(Select(ch, r), BVi(1, 64)), Select(ch, r))))
}

// ---------------------------------------------------------------------------


func describeCall(c *ssa.CallCommon) string {
	if c.IsInvoke() {
		return fmt.Sprintf("(%s).%s", types.TypeString(c.Value.Type(), qual), c.Method.Name())
	}
	if f := c.StaticCallee(); f != nil {
		return f.String()
	}
	return "dynamic call " + strings.TrimSpace(c.Value.String())
}
