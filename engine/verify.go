package main

// Per-function verification: entry state from the precondition, symbolic execution,
// postconditions, frame conditions, cover queries. Lemmas.

import (
	"fmt"
	"go/ast"
	"go/token"
	"go/types"
	"sort"
	"strings"

	"golang.org/x/tools/go/ssa"
)

type FnReport struct {
	Fn     string
	Obls   []*Obligation
	Notes  []string
	Err    string // engine could not handle the function
	HasCtr bool
}

// verifyFunction verifies fn against ct. A `split p lo hi` directive verifies it once per
// value of the integer parameter p (a complete case split over the stated range, which the
// precondition must imply: that implication is an obligation of its own).
func (P *Prog) verifyFunction(fn *ssa.Function, ct *Contract) (rep *FnReport) {
	if ct == nil || ct.SplitParam == "" {
		return P.verifyFunctionCase(fn, ct, "", 0)
	}
	rep = &FnReport{Fn: fn.String(), HasCtr: true}
	notes := map[string]bool{}
	for v := ct.SplitLo; v <= ct.SplitHi; v++ {
		r := P.verifyFunctionCase(fn, ct, ct.SplitParam, v)
		if r.Err != "" {
			rep.Err = r.Err
			rep.Obls = nil
			return rep
		}
		for _, o := range r.Obls {
			o.Name += fmt.Sprintf("[%s=%d]", ct.SplitParam, v)
		}
		rep.Obls = append(rep.Obls, r.Obls...)
		for _, n := range r.Notes {
			notes[n] = true
		}
	}
	// exhaustiveness of the split
	r := P.verifyFunctionCase(fn, ct, "?"+ct.SplitParam, 0)
	rep.Obls = append(rep.Obls, r.Obls...)
	for n := range notes {
		rep.Notes = append(rep.Notes, n)
	}
	sort.Strings(rep.Notes)
	return rep
}

func (P *Prog) verifyFunctionCase(fn *ssa.Function, ct *Contract, splitParam string, splitVal int64) (rep *FnReport) {
	rep = &FnReport{Fn: fn.String(), HasCtr: ct != nil}
	ex := &Exec{P: P, fn: fn, contract: ct}
	if snap, ok := P.nameSnap[fn.String()]; ok {
		ex.rename = renameMap(snap, declNames(fn))
	}
	defer func() {
		if r := recover(); r != nil {
			if u, ok := r.(unsupported); ok {
				rep.Err = u.msg
				rep.Obls = nil
				return
			}
			panic(r)
		}
	}()
	st := newState()
	fr := newFrame(fn, nil)
	ex.top = fr
	if ct != nil {
		if k, ok := ct.UnrollCalls["*"]; ok {
			fr.unrollAll = k
		}
	}
	var args []Value
	for i, p := range fn.Params {
		v := freshValue("p."+p.Name(), p.Type())
		if splitParam == p.Name() {
			w, _, ok := intInfo(p.Type())
			if !ok {
				unsup("split on non-integer parameter %s", p.Name())
			}
			v = Sc{BVi(splitVal, w), p.Type()}
		}
		st.assume(st.wf(v))
		if i == 0 && fn.Signature.Recv() != nil {
			if pv, ok := v.(PtrV); ok {
				st.assume(Neq(pv.L.Ref, BVi(0, 32)))
			}
		}
		args = append(args, v)
		fr.params[p.Name()] = v
	}
	// free variables of closures: pointers to unknown cells of the enclosing function
	for _, fv := range fn.FreeVars {
		et := fv.Type().(*types.Pointer).Elem()
		c := newCell("free."+fv.Name(), et)
		v := freshValueSafe("fv."+fv.Name(), et)
		st.Cells[c] = v
		st.assume(st.wf(v))
		fr.freevars = append(fr.freevars, PtrV{Loc{Kind: LCell, Cell: c, Root: et, Ty: et}, fv.Type()})
	}
	if ct != nil {
		for _, rq := range ct.Requires {
			env := ex.specEnv(fr, st, nil, true)
			env.useLocals = false
			st.assume(env.evalBool(rq.Expr))
		}
	}
	ex.entry = st.clone()
	st.Entry = ex.entry
	if strings.HasPrefix(splitParam, "?") {
		// only the exhaustiveness obligation: requires ⇒ lo <= p <= hi
		pv := fr.params[splitParam[1:]].(Sc)
		w, signed, _ := intInfo(pv.Ty)
		lo, hi := BVi(ct.SplitLo, w), BVi(ct.SplitHi, w)
		g := And(ULe(lo, pv.T), ULe(pv.T, hi))
		if signed {
			g = And(SLe(lo, pv.T), SLe(pv.T, hi))
		}
		ex.addObl("split", "exhaustive", fn.Pos(), st, g, nil)
		rep.Obls = ex.obls
		return rep
	}
	val, out := ex.runFunction(fr, st, args)
	if out != nil && ct != nil {
		for _, ap := range ct.Applies {
			ex.applyLemma(fr, out, ap, val)
		}
		// ghost assignments at exit (all right-hand sides are evaluated first)
		if len(ct.GhostSets) > 0 {
			var vals []*Term
			for _, gs := range ct.GhostSets {
				env := ex.specEnv(fr, out, ex.entry, true)
				env.useLocals = false
				ex.bindResults(env, fn.Signature, val)
				sc, ok := env.eval(gs.Expr).(Sc)
				if !ok || sc.T.Sort != IntSort {
					specErr("ghost_set %s: the value must be an int", gs.Name)
				}
				vals = append(vals, sc.T)
			}
			for i, gs := range ct.GhostSets {
				out.logWrite(&WriteRec{Kind: "global", Key: "ghost." + gs.Name})
				out.setHeap("G|ghost."+gs.Name+"|", vals[i])
			}
		}
		for i, en := range ct.Ensures {
			env := ex.specEnv(fr, out, ex.entry, false)
			env.useLocals = false
			ex.bindResults(env, fn.Signature, val)
			g := env.evalBool(en.Expr)
			ex.addOblSk("post", fmt.Sprintf("%d", i+1), fn.Pos(), out, g, env.skolems, en.Src)
		}
		for i, en := range ct.Claims {
			env := ex.specEnv(fr, out, ex.entry, false)
			env.useLocals = false
			ex.bindResults(env, fn.Signature, val)
			g := env.evalBool(en.Expr)
			ex.addOblSk("claim", fmt.Sprintf("%d", i+1), fn.Pos(), out, g, env.skolems, en.Src)
		}
		ex.frameObligations(fr, out, ct, "frame")
	}
	// cover: the precondition is satisfiable and some return is reachable
	if ct != nil {
		g := ex.entry.G
		if out != nil {
			g = out.G
		}
		o := &Obligation{Fn: fn.String(), Kind: "cover", Name: fn.String() + "#cover", Hyp: g, Goal: True, Cover: true, Props: ct.Props}
		o.Lazy = append(o.Lazy, ex.lazy...)
		ex.obls = append(ex.obls, o)
	}
	rep.Obls = ex.obls
	for n := range ex.notes {
		rep.Notes = append(rep.Notes, n)
	}
	sort.Strings(rep.Notes)
	return rep
}

// applyLemma assumes an instance of a separately proved lemma: `apply name(e1, ..., en)`
// binds the lemma's variables to the values of e1..en (evaluated over the locals of the
// function in state st) and assumes (assumptions ⇒ conclusions).
func (ex *Exec) applyLemma(fr *Frame, st *State, ap Clause, res Value) {
	call, ok := ap.Expr.(*ast.CallExpr)
	if !ok {
		specErr("apply needs lemma(args): %s", ap.Src)
	}
	id, ok := call.Fun.(*ast.Ident)
	if !ok {
		specErr("apply needs lemma(args): %s", ap.Src)
	}
	if bl, ok := builtinLemmas[id.Name]; ok {
		argEnv := ex.specEnv(fr, st, ex.entry, true)
		ex.bindResults(argEnv, fr.fn.Signature, res)
		var args []Value
		for _, a := range call.Args {
			v := argEnv.eval(a)
			if sv, isSc := v.(Sc); isSc && sv.Ty == untypedInt {
				v = Sc{sv.T, tU64}
			}
			args = append(args, v)
		}
		st.assume(bl(args))
		ex.note("axiom %s of the specification function oc16 (definition of x mod 65535 by periodicity) used in %s", id.Name, fr.fn)
		return
	}
	var lem *Lemma
	for _, l := range ex.P.lemmas {
		if l.Name == id.Name {
			lem = l
		}
	}
	if lem == nil {
		specErr("unknown lemma %s", id.Name)
	}
	if len(call.Args) != len(lem.Vars) {
		specErr("lemma %s takes %d arguments", lem.Name, len(lem.Vars))
	}
	argEnv := ex.specEnv(fr, st, ex.entry, true)
	ex.bindResults(argEnv, fr.fn.Signature, res)
	lenv := &SpecEnv{ex: ex, st: st, vars: map[string]Value{}, assume: true, ctx: True, pkg: ex.P.pkgByPath(lem.Pkg)}
	for i, a := range call.Args {
		v := argEnv.eval(a)
		t := lenv.resolveTypeName(lem.Vars[i].Type)
		if t != nil {
			v = argEnv.coerce(v, t)
			if sv, isSc := v.(Sc); isSc {
				if w, _, isInt := intInfo(t); isInt && sv.T.Sort.Kind == SBV && sv.T.Sort.W != w {
					specErr("apply %s: argument %d has width %d, lemma variable %s has type %s", lem.Name, i+1, sv.T.Sort.W, lem.Vars[i].Name, lem.Vars[i].Type)
				}
			}
		}
		lenv.vars[lem.Vars[i].Name] = v
	}
	var hyp []*Term
	for _, a := range lem.Assume {
		n := *lenv
		n.neg = true
		hyp = append(hyp, n.evalBool(a.Expr))
	}
	for _, p := range lem.Prove {
		st.assume(Implies(And(hyp...), lenv.evalBool(p.Expr)))
	}
	if ex.P.usedLemmas == nil {
		ex.P.usedLemmas = map[string]bool{}
	}
	ex.P.usedLemmas[lem.Name] = true
	ex.note("lemma %s applied in %s (proved separately as an obligation of the same run)", lem.Name, fr.fn)
}

func freshValueSafe(name string, t types.Type) (v Value) {
	defer func() {
		if r := recover(); r != nil {
			if _, ok := r.(unsupported); ok {
				v = Sc{Fresh(name, RefSort), t}
				return
			}
			panic(r)
		}
	}()
	return freshValue(name, t)
}

// modSpec describes one modifies clause evaluated in the entry state.
// expandModsets replaces every modifies item `modset(NAME)` by the items of the named set, which
// is written as the modifies clauses of a pseudo-contract `//@ func modset.NAME` (global name).
func (P *Prog) expandModsets(cl []Clause, depth int) []Clause {
	var out []Clause
	for _, m := range cl {
		if call, ok := m.Expr.(*ast.CallExpr); ok {
			if id, ok := call.Fun.(*ast.Ident); ok && id.Name == "modset" && len(call.Args) == 1 && depth < 4 {
				name := exprStr(call.Args[0])
				found := false
				for _, c := range P.contracts {
					if c.FnName == "modset."+name {
						c.bound = true
						out = append(out, P.expandModsets(c.Modifies, depth+1)...)
						found = true
						break
					}
				}
				if !found {
					specErr("unknown modset %s", name)
				}
				continue
			}
		}
		out = append(out, m)
	}
	return out
}

type modSpec struct {
	kind  string // loc, elems, entries, everything
	loc   Loc
	slice SlV
	mapv  Sc
	fam   string
	prefix string         // structfamily: field path the clause is restricted to ("" = all fields)
	but   map[string]bool // everything_but: struct family keys that are preserved
}

// butFor: the modifies clauses contain an everything_but(...); the keys it preserves.
func butFor(mods []modSpec) (map[string]bool, bool) {
	for _, m := range mods {
		if m.kind == "everything_but" {
			return m.but, true
		}
	}
	return nil, false
}

func (ex *Exec) modSpecs(fr *Frame, ct *Contract) []modSpec {
	var out []modSpec
	mods := ex.P.expandModsets(ct.Modifies, 0)
	for _, m := range mods {
		env := ex.specEnv(fr, ex.entry, nil, true)
		env.useLocals = false
		if call, ok := m.Expr.(*ast.CallExpr); ok {
			if id, ok := call.Fun.(*ast.Ident); ok {
				switch id.Name {
				case "everything":
					out = append(out, modSpec{kind: "everything"})
					continue
				case "everything_but":
					but := map[string]bool{}
					for _, a := range call.Args {
						t, absent := env.resolveTypeArg(a)
						if absent {
							continue
						}
						but[butKey(t)] = true
					}
					out = append(out, modSpec{kind: "everything_but", but: but})
					continue
				case "elems":
					out = append(out, modSpec{kind: "elems", slice: env.eval(call.Args[0]).(SlV)})
					continue
				case "elemscap":
					sl := env.eval(call.Args[0]).(SlV)
					sl.Len = sl.Cap
					out = append(out, modSpec{kind: "elems", slice: sl})
					continue
				case "entries":
					out = append(out, modSpec{kind: "entries", mapv: env.eval(call.Args[0]).(Sc)})
					continue
				case "ghost", "ghostarr":
					gid, ok := call.Args[0].(*ast.Ident)
					if !ok {
						specErr("%s(name)", id.Name)
					}
					out = append(out, modSpec{kind: "ghost", fam: id.Name + "." + gid.Name})
					continue
				case "elemfamily":
					t := env.resolveType(call.Args[0])
					if t == nil {
						specErr("elemfamily: unknown type")
					}
					out = append(out, modSpec{kind: "elemfamily", fam: typeKey(t)})
					continue
				case "structfamily":
					t, absent := env.resolveTypeArg(call.Args[0])
					if absent {
						continue
					}
					out = append(out, modSpec{kind: "structfamily", fam: typeKey(t), prefix: famPrefixArg(call)})
					continue
				case "mapfamily":
					t := env.resolveType(call.Args[0])
					if t == nil {
						specErr("mapfamily: unknown type")
					}
					out = append(out, modSpec{kind: "mapfamily", fam: mapFam(t.Underlying().(*types.Map))})
					continue
				}
			}
		}
		out = append(out, modSpec{kind: "loc", loc: env.loc(m.Expr)})
	}
	return out
}

// frameRel describes, for one heap family, the relation "cur agrees with the entry state
// outside the modifies clauses" at a symbolic location (r, k): hyp ⇒ eq.
type frameRel struct {
	name    string
	skolems []*Term
	hyp, eq *Term
}

// frameRelation builds the frame relation for heap family `name` whose current contents are cur.
// r and k are the (fresh or bound) reference and index at which the relation is stated.
func (ex *Exec) frameRelation(mods []modSpec, name string, cur *Term, r, k *Term) (hyp, eq *Term, usesK bool) {
	entry := ex.entry
	old := entry.heap(name, heapSorts[name])
	parts := strings.SplitN(name, "|", 3)
	fam, key, leaf := parts[0], parts[1], parts[2]
	if but, ok := butFor(mods); ok && !strings.HasPrefix(name, "G|ghost") {
		if !((fam == "H" || fam == "E") && (but[key] || but[strings.TrimPrefix(key, "*")])) {
			return False, True, false // may change arbitrarily
		}
	}
	matches := func(l Loc) bool {
		prefix, _, _ := pathString(l.Root, l.Path)
		return leaf == prefix || strings.HasPrefix(leaf, prefix+".") || prefix == ""
	}
	var covered []*Term
	switch fam {
	case "H":
		for _, m := range mods {
			if m.kind == "structfamily" && m.fam == key && underPrefix(leaf, m.prefix) {
				return False, True, false
			}
			if m.kind == "loc" && m.loc.Kind == LHeap && typeKey(m.loc.Root) == key && matches(m.loc) {
				covered = append(covered, Eq(r, m.loc.Ref))
			}
		}
		return And(ULt(r, entry.Alloc), Not(Or(covered...))), Eq(Select(cur, r), Select(old, r)), false
	case "E":
		for _, m := range mods {
			switch m.kind {
			case "elems":
				et := m.slice.Ty.Underlying().(*types.Slice).Elem()
				if typeKey(et) == key {
					covered = append(covered, And(Eq(r, m.slice.Arr), SLe(m.slice.Off, k), SLt(k, Add(m.slice.Off, m.slice.Len))))
				}
			case "loc":
				if m.loc.Kind == LElem && typeKey(m.loc.Root) == key && matches(m.loc) {
					covered = append(covered, And(Eq(r, m.loc.Arr), Eq(k, m.loc.Idx)))
				}
			}
		}
		return And(preExistingArray(r, entry.Alloc), Not(Or(covered...))), Eq(Select(Select(cur, r), k), Select(Select(old, r), k)), true
	case "M":
		for _, m := range mods {
			if m.kind == "mapfamily" && strings.HasPrefix(name, m.fam+"|") {
				return False, True, false
			}
			if m.kind == "entries" {
				mt := m.mapv.Ty.Underlying().(*types.Map)
				if strings.HasPrefix(name, mapFam(mt)+"|") {
					covered = append(covered, Eq(r, m.mapv.T))
				}
			}
		}
		return And(ULt(r, entry.Alloc), Not(Or(covered...))), Eq(Select(cur, r), Select(old, r)), false
	case "G":
		for _, m := range mods {
			if m.kind == "loc" && m.loc.Kind == LGlobal && m.loc.Glob == key {
				return False, True, false
			}
			if m.kind == "ghost" && m.fam == key {
				return False, True, false
			}
		}
		return True, Eq(cur, old), false
	}
	return False, True, false
}

// preExistingArray: r is a backing array that existed at entry — an allocated array below
// the entry allocation counter, or the embedded array field of an object that existed then.
func preExistingArray(r, alloc0 *Term) *Term {
	emb := And(ULe(BVu(0x80000000, 32), r), ULt(BAnd(r, BVu(0x00ffffff, 32)), alloc0))
	return Or(ULt(r, alloc0), emb)
}

func modsEverything(mods []modSpec) bool {
	for _, m := range mods {
		if m.kind == "everything" {
			return true
		}
	}
	return false
}

// frameObligations: every heap family that differs from the entry state may differ only
// at locations covered by the modifies clauses (objects allocated during the call excepted).
// kind is "frame" (at return) or "loop-frame" (at a back edge).
func (ex *Exec) frameObligations(fr *Frame, out *State, ct *Contract, kind string) {
	if ct == nil || ex.top == nil {
		return
	}
	mods := ex.modSpecs(ex.top, ct)
	if modsEverything(mods) {
		return
	}
	entry := ex.entry
	if ex.frameChecked == nil {
		ex.frameChecked = map[*WriteRec]bool{}
	}
	// Every logged write must hit a location covered by a modifies clause, or an object
	// allocated after entry. One small obligation per distinct write (no array reasoning).
	seenKey := map[string]bool{}
	for _, w := range out.Writes {
		if ex.frameChecked[w] {
			continue
		}
		ex.frameChecked[w] = true
		st := &State{G: w.Guard}
		var goal *Term
		var sk []*Term
		detail := w.Kind + ":" + w.Key
		if w.Prefix != "" {
			detail += "." + w.Prefix
		}
		switch w.Kind {
		case "everything", "everything_but":
			goal = False
		case "global":
			goal = False
			for _, m := range mods {
				if (m.kind == "loc" && m.loc.Kind == LGlobal && m.loc.Glob == w.Key) || (m.kind == "ghost" && m.fam == w.Key) {
					goal = True
				}
			}
		case "mapfamily":
			goal = False
			for _, m := range mods {
				if m.kind == "mapfamily" && m.fam == w.Key {
					goal = True
				}
			}
		case "elemfamily":
			goal = False
			for _, m := range mods {
				if m.kind == "elemfamily" && m.fam == w.Key {
					goal = True
				}
			}
		case "structfamily":
			goal = False
			for _, m := range mods {
				if m.kind == "structfamily" && m.fam == w.Key && underPrefix(w.Prefix, m.prefix) && (w.Prefix != "" || m.prefix == "") {
					goal = True
				}
			}
		case "map":
			cov := []*Term{Not(ULt(w.Ref, entry.Alloc))}
			for _, m := range mods {
				if m.kind == "mapfamily" && m.fam == w.Key {
					cov = append(cov, True)
				}
				if m.kind == "entries" && mapFam(m.mapv.Ty.Underlying().(*types.Map)) == w.Key {
					cov = append(cov, Eq(w.Ref, m.mapv.T))
				}
			}
			goal = Or(cov...)
		case "field":
			if isFreshRef(w.Ref) {
				continue
			}
			// (a callee's modifies clause evaluated on a nil pointer designates no object)
			cov := []*Term{Not(ULt(w.Ref, entry.Alloc)), Eq(w.Ref, BVi(0, 32))}
			for _, m := range mods {
				if m.kind == "structfamily" && m.fam == w.Key && underPrefix(w.Prefix, m.prefix) {
					cov = append(cov, True)
				}
				if m.kind == "loc" && m.loc.Kind == LHeap && typeKey(m.loc.Root) == w.Key {
					mp, _, _ := pathString(m.loc.Root, m.loc.Path)
					if mp == "" || mp == w.Prefix || strings.HasPrefix(w.Prefix, mp+".") {
						cov = append(cov, Eq(w.Ref, m.loc.Ref))
					}
				}
			}
			goal = Or(cov...)
		case "elem", "range":
			if isFreshRef(w.Ref) {
				continue
			}
			idx := w.Idx
			var inRange *Term = True
			if w.Kind == "range" {
				if w.N.IsConst() && w.N.Val.Sign() == 0 {
					continue
				}
				j := Fresh("fr_idx", IntSort)
				sk = append(sk, j)
				inRange = And(SLe(w.Idx, j), SLt(j, Add(w.Idx, w.N)))
				idx = j
			}
			cov := []*Term{Not(preExistingArray(w.Ref, entry.Alloc))}
			for _, m := range mods {
				switch m.kind {
				case "elemfamily":
					if m.fam == w.Key {
						cov = append(cov, True)
					}
				case "elems":
					if typeKey(m.slice.Ty.Underlying().(*types.Slice).Elem()) == w.Key {
						cov = append(cov, And(Eq(w.Ref, m.slice.Arr), SLe(m.slice.Off, idx), SLt(idx, Add(m.slice.Off, m.slice.Len))))
					}
				case "loc":
					if m.loc.Kind == LElem && typeKey(m.loc.Root) == w.Key {
						mp, _, _ := pathString(m.loc.Root, m.loc.Path)
						if mp == "" || mp == w.Prefix || strings.HasPrefix(w.Prefix, mp+".") {
							cov = append(cov, And(Eq(w.Ref, m.loc.Arr), Eq(idx, m.loc.Idx)))
						}
					}
					// a modifies clause naming an array-typed field covers all its elements
					if er := embeddedArrayRef(m.loc); er != nil {
						cov = append(cov, Eq(w.Ref, er))
					}
				}
			}
			goal = Implies(inRange, Or(cov...))
		default:
			continue
		}
		if but, ok := butFor(mods); ok {
			switch w.Kind {
			case "field", "structfamily", "map", "mapfamily":
				if !but[w.Key] {
					goal = True
				}
			case "elem", "range", "elemfamily":
				if !but[w.Key] && !but[strings.TrimPrefix(w.Key, "*")] {
					goal = True
				}
			case "everything":
				// not covered
			case "everything_but":
				// the callee preserves at least what this function promises to preserve
				cov := true
				callee := map[string]bool{}
				for _, k := range strings.Split(w.Key, ",") {
					callee[k] = true
				}
				for k := range but {
					if !callee[k] {
						cov = false
					}
				}
				if cov {
					goal = True
				}
			case "global":
				if !strings.HasPrefix(w.Key, "ghost") {
					goal = True
				}
			default:
				goal = True
			}
		}
		key := detail + "/" + fmt.Sprint(goal.id) + "/" + fmt.Sprint(w.Guard.id)
		if goal == True || seenKey[key] {
			continue
		}
		seenKey[key] = true
		ex.addObl(kind, detail, fr.fn.Pos(), st, goal, sk)
		if n := len(ex.obls); n > 0 && w.Desc != "" {
			ex.obls[n-1].Src = w.Desc
		}
	}
}

// isFreshRef: the reference is syntactically the allocation counter of this execution plus a
// constant, i.e. an object allocated since entry.
func isFreshRef(r *Term) bool {
	if r.Op == "var" && r.Name == "alloc@0" {
		return true
	}
	if r.Op == "bvadd" && r.Args[1].IsConst() {
		return isFreshRef(r.Args[0])
	}
	return false
}

// assumeLoopFrame constrains a heap family that was havocked at a loop head: outside the
// function's modifies clauses it still agrees with the entry state (checked at back edges).
func (ex *Exec) assumeLoopFrame(st *State, name string, cur *Term) {
	if ex.contract == nil || ex.top == nil {
		return
	}
	mods := ex.modSpecs(ex.top, ex.contract)
	if modsEverything(mods) {
		return
	}
	fam := name[:1]
	g := st.G
	if but, ok := butFor(mods); ok && !strings.HasPrefix(name, "G|ghost") {
		key := strings.SplitN(name, "|", 3)[1]
		if !((fam == "H" || fam == "E") && (but[key] || but[strings.TrimPrefix(key, "*")])) {
			return
		}
	}
	switch fam {
	case "G":
		hyp, eq, _ := ex.frameRelation(mods, name, cur, nil, nil)
		st.assume(Implies(hyp, eq))
	case "H", "M":
		ex.addLazy(&LazyForall{Guard: g, Sort: RefSort, Desc: "loop frame of " + name, Body: func(r *Term) *Term {
			hyp, eq, _ := ex.frameRelation(mods, name, cur, r, nil)
			return Implies(hyp, eq)
		}})
	case "E":
		// two bound variables: instantiate references lazily, and per reference the index lazily
		ex.addLazy(&LazyForall{Guard: g, Sort: RefSort, Desc: "loop frame of " + name + " (rows)", Body: func(r *Term) *Term {
			// rows of arrays that no modifies clause mentions are unchanged as a whole
			entry := ex.entry
			old := entry.heap(name, heapSorts[name])
			var mentioned []*Term
			key := strings.SplitN(name, "|", 3)[1]
			for _, m := range mods {
				switch m.kind {
				case "elems":
					if typeKey(m.slice.Ty.Underlying().(*types.Slice).Elem()) == key {
						mentioned = append(mentioned, Eq(r, m.slice.Arr))
					}
				case "loc":
					if m.loc.Kind == LElem && typeKey(m.loc.Root) == key {
						mentioned = append(mentioned, Eq(r, m.loc.Arr))
					}
				}
			}
			return Implies(And(preExistingArray(r, entry.Alloc), Not(Or(mentioned...))), Eq(Select(cur, r), Select(old, r)))
		}})
		for _, m := range mods {
			var arr *Term
			switch m.kind {
			case "elems":
				arr = m.slice.Arr
			case "loc":
				if m.loc.Kind == LElem {
					arr = m.loc.Arr
				}
			}
			if arr == nil {
				continue
			}
			a := arr
			ex.addLazy(&LazyForall{Guard: g, Sort: IntSort, Desc: "loop frame of " + name + " (elements)", Body: func(k *Term) *Term {
				hyp, eq, _ := ex.frameRelation(mods, name, cur, a, k)
				return Implies(hyp, eq)
			}})
		}
	}
}

// ---------------------------------------------------------------------------
// lemmas: pure obligations over bit-vector variables

func (P *Prog) verifyLemma(l *Lemma) (rep *FnReport) {
	rep = &FnReport{Fn: "lemma " + l.Name, HasCtr: true}
	defer func() {
		if r := recover(); r != nil {
			if u, ok := r.(unsupported); ok {
				rep.Err = u.msg
				rep.Obls = nil
				return
			}
			panic(r)
		}
	}()
	ex := &Exec{P: P}
	pkg := P.pkgByPath(l.Pkg)
	// a dummy function context for naming
	st := newState()
	env := &SpecEnv{ex: ex, st: st, vars: map[string]Value{}, assume: true, ctx: True, pkg: pkg}
	for _, v := range l.Vars {
		t := env.resolveTypeName(v.Type)
		if t == nil {
			specErr("lemma %s: unknown type %s", l.Name, v.Type)
		}
		fv := freshValue("lv."+v.Name, t)
		st.assume(st.wf(fv))
		env.vars[v.Name] = fv
	}
	for _, a := range l.Assume {
		st.assume(env.evalBool(a.Expr))
	}
	for _, ap := range l.Applies {
		call, ok := ap.Expr.(*ast.CallExpr)
		if !ok {
			specErr("apply needs name(args)")
		}
		id, _ := call.Fun.(*ast.Ident)
		if id == nil || builtinLemmas[id.Name] == nil {
			specErr("lemmas may only apply built-in axioms of specification functions: %s", ap.Src)
		}
		var args []Value
		for _, a := range call.Args {
			v := env.eval(a)
			if sv, isSc := v.(Sc); isSc && sv.Ty == untypedInt {
				v = Sc{sv.T, tU64}
			}
			args = append(args, v)
		}
		st.assume(builtinLemmas[id.Name](args))
	}
	for i, p := range l.Prove {
		e2 := *env
		e2.assume = false
		g := e2.evalBool(p.Expr)
		o := &Obligation{Fn: rep.Fn, Kind: "lemma", Name: fmt.Sprintf("lemma %s#%d", l.Name, i+1), Hyp: st.G, Goal: g, Skolems: e2.skolems, Props: l.Props, Src: p.Src, Reveal: l.Reveal}
		o.Pos = token.Position{Filename: l.File, Line: p.Line}
		o.Lazy = append(o.Lazy, ex.lazy...)
		o.Lazy = append(o.Lazy, ex.goalLazy...)
		ex.goalLazy = nil
		rep.Obls = append(rep.Obls, o)
	}
	rep.Obls = append(rep.Obls, &Obligation{Fn: rep.Fn, Kind: "cover", Name: "lemma " + l.Name + "#cover", Hyp: st.G, Goal: True, Cover: true, Props: l.Props})
	return rep
}

func (env *SpecEnv) resolveTypeName(s string) types.Type {
	e, err := parseExprString(s)
	if err != nil {
		return nil
	}
	return env.resolveType(e)
}
