package main

// Replay of solver counterexamples on the real code: a test is generated from the model,
// injected into the package with `go test -overlay`, and the violated clause (compiled to
// Go) or the panic is observed on the real function.

import (
	"bytes"
	"context"
	"encoding/json"
	"fmt"
	"go/ast"
	"go/types"
	"os"
	"os/exec"
	"path/filepath"
	"strconv"
	"strings"
	"time"

	"golang.org/x/tools/go/ssa"
)

func modelBV(m map[string]string, name string) (uint64, bool) {
	v, ok := m[name]
	if !ok {
		v, ok = m[strings.ReplaceAll(name, "|", "::")]
	}
	if !ok && strings.HasSuffix(name, "!1") {
		// fresh-name counters are global: accept any instance of the prefix (one per query)
		pre := strings.TrimSuffix(name, "1")
		for k, x := range m {
			if strings.HasPrefix(k, pre) {
				v, ok = x, true
			}
		}
	}
	if !ok {
		return 0, false
	}
	switch {
	case strings.HasPrefix(v, "#x"):
		n, err := strconv.ParseUint(v[2:], 16, 64)
		return n, err == nil
	case strings.HasPrefix(v, "#b"):
		n, err := strconv.ParseUint(v[2:], 2, 64)
		return n, err == nil
	case v == "true":
		return 1, true
	case v == "false":
		return 0, true
	}
	return 0, false
}

// goLiteral renders a model value as a Go expression of type t (scalars only).
func goLiteral(t types.Type, name string, m map[string]string, qualifier types.Qualifier) (string, bool) {
	ts := types.TypeString(t, qualifier)
	if isBool(t) {
		v, _ := modelBV(m, name)
		return fmt.Sprintf("%s(%v)", ts, v == 1), true
	}
	if w, signed, ok := intInfo(t); ok {
		v, _ := modelBV(m, name) // absent from the model: irrelevant, any value works
		if signed {
			sv := int64(v)
			if w < 64 {
				sv = int64(v<<(64-uint(w))) >> (64 - uint(w))
			}
			return fmt.Sprintf("%s(%d)", ts, sv), true
		}
		return fmt.Sprintf("%s(%d)", ts, v), true
	}
	return "", false
}

// specToGo compiles a contract clause to a Go boolean expression over the parameter
// names, `result`/`resultN` and named results. Only quantifier-free scalar clauses.
func specToGo(e ast.Expr) (string, bool) {
	ok := true
	var conv func(e ast.Expr) string
	conv = func(e ast.Expr) string {
		switch x := e.(type) {
		case *ast.ParenExpr:
			return "(" + conv(x.X) + ")"
		case *ast.BasicLit:
			return x.Value
		case *ast.Ident:
			return x.Name
		case *ast.UnaryExpr:
			return x.Op.String() + conv(x.X)
		case *ast.BinaryExpr:
			return "(" + conv(x.X) + " " + x.Op.String() + " " + conv(x.Y) + ")"
		case *ast.SelectorExpr:
			return conv(x.X) + "." + x.Sel.Name
		case *ast.StarExpr:
			return "*" + conv(x.X)
		case *ast.IndexExpr:
			return conv(x.X) + "[" + conv(x.Index) + "]"
		case *ast.CallExpr:
			if id, isId := x.Fun.(*ast.Ident); isId {
				switch id.Name {
				case "implies":
					return "(!(" + conv(x.Args[0]) + ") || (" + conv(x.Args[1]) + "))"
				case "iff":
					return "((" + conv(x.Args[0]) + ") == (" + conv(x.Args[1]) + "))"
				case "old", "forall", "exists", "ite", "fresh", "has", "arr", "off", "be16", "be32", "be64", "byteat":
					ok = false
					return "false"
				}
			}
			var as []string
			for _, a := range x.Args {
				as = append(as, conv(a))
			}
			return conv(x.Fun) + "(" + strings.Join(as, ", ") + ")"
		}
		ok = false
		return "false"
	}
	s := conv(e)
	return s, ok
}

func (P *Prog) findFunction(name string) *ssa.Function {
	for _, p := range P.pkgs {
		sp := P.prog.Package(p.Types)
		if sp == nil {
			continue
		}
		for _, f := range P.pkgFunctions(sp) {
			if f.String() == name {
				return f
			}
		}
	}
	return nil
}

func (P *Prog) tryReplay(o *Obligation, rj map[string]interface{}, repo, verif string) bool {
	fn := P.findFunction(o.Fn)
	if fn == nil || fn.Pkg == nil || fn.Parent() != nil {
		rj["replay"] = "no replay: not a top-level function"
		return false
	}
	pkg := fn.Pkg.Pkg
	q := func(p *types.Package) string {
		if p == pkg {
			return ""
		}
		return p.Name()
	}
	var decls, callArgs []string
	inputs := map[string]string{}
	sig := fn.Signature
	recvExpr := ""
	for i, p := range fn.Params {
		lit, ok := goLiteral(p.Type(), fmt.Sprintf("p.%s!1", p.Name()), o.Model, q)
		if !ok {
			rj["replay"] = fmt.Sprintf("no replay: parameter %s of type %s is not reconstructed from the model by this version", p.Name(), p.Type())
			return false
		}
		// imported named types would need imports; restrict to same-package and basic types
		if strings.Contains(lit, ".") && !strings.HasPrefix(lit, "-") {
			if _, isBasic := p.Type().(*types.Basic); !isBasic {
				if n, isNamed := p.Type().(*types.Named); isNamed && n.Obj().Pkg() != pkg {
					rj["replay"] = "no replay: parameter type from another package"
					return false
				}
			}
		}
		name := p.Name()
		if name == "" || name == "_" {
			name = fmt.Sprintf("arg%d", i)
		}
		decls = append(decls, fmt.Sprintf("\tvar %s = %s", name, lit))
		decls = append(decls, fmt.Sprintf("\t_ = %s", name))
		inputs[name] = lit
		if i == 0 && sig.Recv() != nil {
			recvExpr = name
		} else {
			callArgs = append(callArgs, name)
		}
	}
	call := fn.Name() + "(" + strings.Join(callArgs, ", ") + ")"
	if recvExpr != "" {
		call = recvExpr + "." + call
	}
	var results []string
	rs := sig.Results()
	for i := 0; i < rs.Len(); i++ {
		if rs.Len() == 1 {
			results = append(results, "result")
		} else {
			results = append(results, fmt.Sprintf("result%d", i+1))
		}
	}
	var body bytes.Buffer
	fmt.Fprintf(&body, "package %s\n\nimport \"testing\"\n\nfunc TestVerifReplay(t *testing.T) {\n", pkg.Name())
	body.WriteString(strings.Join(decls, "\n") + "\n")
	check := ""
	switch o.Kind {
	case "post", "claim":
		ct := P.contractOf(fn)
		if ct == nil {
			return false
		}
		var idx int
		fmt.Sscanf(o.Name[strings.LastIndex(o.Name, "@")+1:], "%d", &idx)
		clauses := ct.Ensures
		if o.Kind == "claim" {
			clauses = ct.Claims
		}
		if idx < 1 || idx > len(clauses) {
			return false
		}
		g, ok := specToGo(clauses[idx-1].Expr)
		if !ok {
			rj["replay"] = "no replay: clause uses forms that are not compiled to Go by this version"
			return false
		}
		check = g
		for i := 0; i < rs.Len(); i++ {
			if n := rs.At(i).Name(); n != "" && n != "_" {
				check = "func() bool { " + n + " := " + results[i] + "; _ = " + n + "; return " + check + " }()"
			}
		}
	case "bounds", "nil", "div", "panic", "typeassert":
		check = ""
	default:
		rj["replay"] = "no replay for obligation kind " + o.Kind
		return false
	}
	body.WriteString("\tdefer func() {\n\t\tif r := recover(); r != nil {\n\t\t\tt.Logf(\"VERIF-REPLAY-PANIC %v\", r)\n\t\t\tt.Fail()\n\t\t}\n\t}()\n")
	if len(results) > 0 {
		fmt.Fprintf(&body, "\t%s := %s\n", strings.Join(results, ", "), call)
		for _, r := range results {
			fmt.Fprintf(&body, "\t_ = %s\n", r)
		}
	} else {
		fmt.Fprintf(&body, "\t%s\n", call)
	}
	if check != "" {
		fmt.Fprintf(&body, "\tif !(%s) {\n\t\tt.Logf(\"VERIF-REPLAY-CLAUSE-FALSE results=%%v\", []interface{}{%s})\n\t\tt.Fail()\n\t}\n", check, strings.Join(results, ", "))
	}
	body.WriteString("}\n")
	tmp, err := os.MkdirTemp("", "verif-replay")
	if err != nil {
		return false
	}
	defer os.RemoveAll(tmp)
	testFile := filepath.Join(tmp, "zz_verif_replay_test.go")
	os.WriteFile(testFile, body.Bytes(), 0o644)
	pkgDir := filepath.Dir(P.fset.Position(fn.Pos()).Filename)
	ov := map[string]map[string]string{"Replace": {filepath.Join(pkgDir, "zz_verif_replay_test.go"): testFile}}
	ovData, _ := json.Marshal(ov)
	ovFile := filepath.Join(tmp, "overlay.json")
	os.WriteFile(ovFile, ovData, 0o644)
	ctx, cancel := context.WithTimeout(context.Background(), 120*time.Second)
	defer cancel()
	cmd := exec.CommandContext(ctx, "go", "test", "-tags", "verif", "-overlay", ovFile, "-vet=off", "-count=1", "-timeout", "60s", "-run", "^TestVerifReplay$", "-v", ".")
	cmd.Dir = pkgDir
	cmd.Env = append(os.Environ(), "GOFLAGS=-mod=mod", "GOPROXY=off", "GOSUMDB=off", "GOTOOLCHAIN=local")
	out, _ := cmd.CombinedOutput()
	text := string(out)
	rj["replay_inputs"] = inputs
	rj["replay_test"] = body.String()
	rj["replay_output"] = text
	confirmed := false
	if check != "" && strings.Contains(text, "VERIF-REPLAY-CLAUSE-FALSE") {
		confirmed = true
	}
	if check == "" && strings.Contains(text, "VERIF-REPLAY-PANIC") {
		confirmed = true
	}
	if (o.Kind == "post" || o.Kind == "claim") && strings.Contains(text, "VERIF-REPLAY-PANIC") {
		confirmed = true
	}
	rj["replay_confirmed"] = confirmed
	return confirmed
}
