package main

// Symbolic state: guard, local cells, heap families, allocation counter.

import (
	"fmt"
	"go/types"
	"sort"
	"os"
	"runtime/debug"
	"strings"
)

type State struct {
	G     *Term // reachability and everything assumed so far
	Cells map[*Cell]Value
	Heap  map[string]*Term
	Alloc *Term
	Epoch *Term // distinguishes the default (never written) contents of heap families across total havocs
	// Writes is the log of heap locations written (or havocked on behalf of a callee) so far
	// on the paths this state stands for. Frame conditions are checked against it: each
	// logged write must be covered by a modifies clause or hit an object allocated later.
	Writes []*WriteRec
	Entry  *State // the state at function entry (nil in the entry state itself)
}

// WriteRec is one logged write.
type WriteRec struct {
	Kind   string // field, elem, range, map, global, everything
	Key    string // type key of the struct / element / map family, or global name
	Prefix string // field path written (field/elem kinds)
	Ref    *Term  // object, array or map reference
	Idx    *Term  // element index (elem), or first index (range)
	N      *Term  // number of elements (range)
	Guard  *Term  // path condition at the write
	Desc   string
}

func (s *State) logWrite(w *WriteRec) {
	w.Guard = s.G
	if w.Kind == "everything" && os.Getenv("VERIF_DEBUG") == "everything" {
		debug.PrintStack()
	}
	// copy-on-append: states share prefixes of the log
	s.Writes = append(s.Writes[:len(s.Writes):len(s.Writes)], w)
}

func newState() *State {
	return &State{G: True, Cells: map[*Cell]Value{}, Heap: map[string]*Term{}, Alloc: Var("alloc@0", RefSort), Epoch: BVi(0, 32)}
}

func (s *State) clone() *State {
	n := &State{G: s.G, Cells: make(map[*Cell]Value, len(s.Cells)), Heap: make(map[string]*Term, len(s.Heap)), Alloc: s.Alloc, Epoch: s.Epoch, Writes: s.Writes, Entry: s.Entry}
	for k, v := range s.Cells {
		n.Cells[k] = v
	}
	for k, v := range s.Heap {
		n.Heap[k] = v
	}
	return n
}

func (s *State) assume(t *Term) {
	// a comparison whose exact complement (a < b against b <= a) is already assumed
	// makes the state unreachable: detected syntactically so that dead branches are pruned
	if c := complementCmp(t); c != nil {
		for _, g := range conjuncts(s.G) {
			if g == c {
				s.G = False
				return
			}
		}
	}
	s.G = And(s.G, t)
}

// complementCmp: for a < b the term b <= a and vice versa (signed and unsigned); nil otherwise.
func complementCmp(t *Term) *Term {
	var op string
	switch t.Op {
	case "bvslt":
		op = "bvsle"
	case "bvsle":
		op = "bvslt"
	case "bvult":
		op = "bvule"
	case "bvule":
		op = "bvult"
	default:
		return nil
	}
	return mk(&Term{Op: op, Args: []*Term{t.Args[1], t.Args[0]}, Sort: BoolSort})
}

// finalUsed: heap families treated as write-once fields in this run (reported in the evidence).
var finalUsed = map[string]bool{}

// heapSorts remembers the sort of each heap family array.
var heapSorts = map[string]*Sort{}

func (s *State) heap(name string, srt *Sort) *Term {
	if t, ok := s.Heap[name]; ok {
		return t
	}
	if o, ok := heapSorts[name]; ok && o != srt {
		panic(fmt.Sprintf("heap family %s used at sorts %s and %s", name, o, srt))
	}
	heapSorts[name] = srt
	if strings.HasPrefix(name, "G|ghost") {
		// ghost state does not depend on the havoc epoch
		return Var("ghost0|"+name, srt)
	}
	if finalProg != nil && finalProg.finalFamily(name) {
		finalUsed[name] = true
		// final fields: the contents for objects that exist do not depend on what was executed
		registerFinalHeapFact(name, srt)
		return Var("final|"+name, srt)
	}
	if s.Epoch.IsConst() && s.Epoch.Val.Sign() == 0 {
		registerEntryHeapFact(name, srt)
	}
	// the never-written contents of a family are a function of the epoch (0 at entry; a fresh
	// epoch after every total havoc), so that merged states whose epoch is an ite stay linked
	return App("heap0|"+name, srt, s.Epoch)
}

// entryHeapFacts: heap closedness at entry. Every reference stored in a struct field at entry
// designates an object that existed at entry (is below the entry allocation counter, or is an
// embedded array). Held as quantified facts over the object reference, instantiated where
// the entry contents of the family are read.
var entryHeapFacts = map[string]*LazyForall{}

func registerEntryHeapFact(name string, srt *Sort) {
	if _, ok := entryHeapFacts[name]; ok || !strings.HasPrefix(name, "H|") {
		return
	}
	if srt.Kind != SArray || srt.Idx != RefSort || srt.Elem != RefSort {
		return
	}
	if strings.HasSuffix(name, "|tag") || strings.HasSuffix(name, ".tag") {
		return // dynamic type tags of interface values are not references
	}
	h0 := App("heap0|"+name, srt, BVi(0, 32))
	a0 := Var("alloc@0", RefSort)
	entryHeapFacts[name] = &LazyForall{Guard: True, Sort: RefSort, Desc: "heap closed at entry: " + name, Body: func(r *Term) *Term {
		v := Select(h0, r)
		return Or(ULt(v, a0), ULe(BVu(0x80000000, 32), v))
	}}
}

// registerFinalHeapFact: closedness at entry for a family of final fields, restricted to the
// objects that existed at entry (objects allocated later by code that was not executed
// symbolically may refer to younger objects).
func registerFinalHeapFact(name string, srt *Sort) {
	if _, ok := entryHeapFacts[name]; ok {
		return
	}
	if srt.Kind != SArray || srt.Idx != RefSort || srt.Elem != RefSort {
		return
	}
	if strings.HasSuffix(name, "|tag") || strings.HasSuffix(name, ".tag") {
		return
	}
	h0 := Var("final|"+name, srt)
	a0 := Var("alloc@0", RefSort)
	entryHeapFacts[name] = &LazyForall{Guard: True, Sort: RefSort, Desc: "final fields closed at entry: " + name, Body: func(r *Term) *Term {
		v := Select(h0, r)
		return Implies(ULt(r, a0), Or(ULt(v, a0), ULe(BVu(0x80000000, 32), v)))
	}}
}

func (s *State) setHeap(name string, t *Term) {
	heapSorts[name] = t.Sort
	s.Heap[name] = t
}

// mergeStates merges b into a under condition "came from b" = cb, "came from a" = ca.
// The resulting guard is the disjunction of the two guards (each already contains its edge condition).
func mergeStates(a, b *State) *State {
	if a == nil {
		return b
	}
	if b == nil {
		return a
	}
	if a.G == False {
		return b
	}
	if b.G == False {
		return a
	}
	// selector: we are in b's world iff b.G holds and a.G does not; when both hold the
	// states agree on everything that matters only if the paths are exclusive, which they
	// are for a deterministic CFG (edge conditions are complementary).  We therefore pick by a.G.
	c := pathSelector(a.G, b.G)
	out := &State{G: factoredOr(a.G, b.G), Cells: map[*Cell]Value{}, Heap: map[string]*Term{}}
	for k, va := range a.Cells {
		if vb, ok := b.Cells[k]; ok {
			out.Cells[k] = iteValue(c, va, vb)
		}
	}
	names := map[string]bool{}
	for k := range a.Heap {
		names[k] = true
	}
	for k := range b.Heap {
		names[k] = true
	}
	for k := range names {
		srt := heapSorts[k]
		out.Heap[k] = Ite(c, a.heap(k, srt), b.heap(k, srt))
	}
	out.Alloc = Ite(c, a.Alloc, b.Alloc)
	out.Epoch = Ite(c, a.Epoch, b.Epoch)
	out.Entry = a.Entry
	// union of the write logs (entries carry their own guards)
	seenW := map[*WriteRec]bool{}
	for _, w := range a.Writes {
		seenW[w] = true
	}
	out.Writes = append(out.Writes, a.Writes...)
	for _, w := range b.Writes {
		if !seenW[w] {
			out.Writes = append(out.Writes, w)
		}
	}
	return out
}

// pathSelector returns a condition that is true on a's paths and false on b's.
// Guards of two predecessors of a join are mutually exclusive; a.G itself is a valid selector.
// To keep terms small we try to find a distinguishing conjunct.
func pathSelector(ga, gb *Term) *Term {
	ca := conjuncts(ga)
	cb := conjuncts(gb)
	inB := map[int]bool{}
	for _, t := range cb {
		inB[t.id] = true
	}
	for _, t := range ca {
		if inB[Not(t).id] {
			return t
		}
	}
	// drop common conjuncts
	var only []*Term
	for _, t := range ca {
		if !inB[t.id] {
			only = append(only, t)
		}
	}
	if len(only) > 0 {
		return And(only...)
	}
	return ga
}

// factoredOr builds ga ∨ gb with the common conjuncts pulled out:
// (C ∧ A) ∨ (C ∧ B) = C ∧ (A ∨ B); complementary remainders vanish.
func factoredOr(ga, gb *Term) *Term {
	ca, cb := conjuncts(ga), conjuncts(gb)
	inB := map[int]bool{}
	for _, t := range cb {
		inB[t.id] = true
	}
	var common, ra, rb []*Term
	inCommon := map[int]bool{}
	for _, t := range ca {
		if inB[t.id] {
			common = append(common, t)
			inCommon[t.id] = true
		} else {
			ra = append(ra, t)
		}
	}
	for _, t := range cb {
		if !inCommon[t.id] {
			rb = append(rb, t)
		}
	}
	return And(append(common, Or(And(ra...), And(rb...)))...)
}

func conjuncts(t *Term) []*Term {
	if t.Op == "and" {
		return t.Args
	}
	return []*Term{t}
}

// ---- well-formedness assumptions for values read from unknown storage ----

var maxLen = BVi(1<<40, 64)

func (s *State) wf(v Value) *Term {
	var cs []*Term
	var walk func(v Value)
	walk = func(v Value) {
		switch x := v.(type) {
		case SlV:
			z := BVi(0, 64)
			cs = append(cs, SLe(z, x.Len), SLe(x.Len, x.Cap), SLe(x.Cap, maxLen), SLe(z, x.Off), SLe(x.Off, maxLen),
				// the backing array is an allocated array, or the array-typed field of an allocated object
				Or(ULt(x.Arr, s.Alloc), And(ULe(BVu(0x80000000, 32), x.Arr), ULt(BAnd(x.Arr, BVu(0x00ffffff, 32)), s.Alloc))),
				Implies(Eq(x.Arr, BVi(0, 32)), And(Eq(x.Cap, z), Eq(x.Off, z))))
		case PtrV:
			if x.L.Kind == LHeap && len(x.L.Path) == 0 {
				cs = append(cs, ULt(x.L.Ref, s.Alloc))
			}
		case IfV:
			cs = append(cs, ULt(x.Ref, s.Alloc), Implies(Eq(x.Tag, BVi(0, 32)), Eq(x.Ref, BVi(0, 32))))
		case StrV:
			cs = append(cs, strWF(x.S))
		case Sc:
			switch x.Ty.Underlying().(type) {
			case *types.Map, *types.Chan, *types.Signature:
				cs = append(cs, ULt(x.T, s.Alloc))
			}
		case StV:
			for _, f := range x.F {
				walk(f)
			}
		case TupV:
			for _, f := range x.E {
				walk(f)
			}
		}
	}
	walk(v)
	return And(cs...)
}

func strLen(s *Term) *Term { return App("strlen", IntSort, s) }
func strByte(s, i *Term) *Term {
	return App("strbyte", BVSort(8), s, i)
}
func strWF(s *Term) *Term {
	l := strLen(s)
	return And(SLe(BVi(0, 64), l), SLe(l, maxLen), Eq(Eq(l, BVi(0, 64)), Eq(s, BVi(0, 64))))
}

// ---- allocation ----

func (s *State) allocRef() *Term {
	r := s.Alloc
	s.Alloc = Add(s.Alloc, BVi(1, 32))
	// no wrap-around of the allocation counter
	s.assume(ULt(r, BVu(0x00fffff0, 32)))
	s.assume(Neq(r, BVi(0, 32)))
	return r
}

// ---- load / store ----

func famName(l Loc) (string, string) {
	switch l.Kind {
	case LHeap:
		return "H", typeKey(l.Root)
	case LElem:
		return "E", typeKey(l.Root)
	case LGlobal:
		return "G", l.Glob
	}
	panic("famName")
}

func loadArr(s *State, l Loc) Value {
	at := l.Ty.Underlying().(*types.Array)
	names, sorts := elemFamilies(at.Elem())
	ts := make([]*Term, len(names))
	for i, n := range names {
		ts[i] = Select(s.heap(n, sorts[i]), l.Arr)
	}
	return ArrV{ts, l.Ty}
}

func storeArr(s *State, l Loc, v Value) {
	at := l.Ty.Underlying().(*types.Array)
	names, sorts := elemFamilies(at.Elem())
	av := v.(ArrV)
	for i, n := range names {
		s.setHeap(n, Store(s.heap(n, sorts[i]), l.Arr, av.Leaves[i]))
	}
}

func (s *State) load(l Loc) Value {
	if l.Kind == LChoice {
		return iteValue(l.Sel, s.load(l.alt(true)), s.load(l.alt(false)))
	}
	if l.Kind == LArr {
		return loadArr(s, l)
	}
	if l.Kind == LCell {
		v, ok := s.Cells[l.Cell]
		if !ok {
			unsup("read of unknown local cell %s", l.Cell.Name)
		}
		return cellGet(v, l.Path)
	}
	prefix, idxs, ty := pathString(l.Root, l.Path)
	fam, key := famName(l)
	ls := leavesOf(ty)
	ts := make([]*Term, len(ls))
	for i, lf := range ls {
		name := fam + "|" + key + "|" + joinName(prefix, lf.Name)
		// sort of the stored leaf array: lf.Sort wrapped by path indices
		full := lf.Sort
		for range idxs {
			full = ArraySort(IntSort, full)
		}
		var t *Term
		switch l.Kind {
		case LHeap:
			if af, ek, el := arrayFieldOf(prefix, lf, ty); ek != "" && len(idxs) == 0 {
				// array field of a heap struct: lives in the element family
				en := "E|" + ek + "|" + el
				t = Select(s.heap(en, ArraySort(RefSort, lf.Sort)), embRef(key, af, l.Ref))
			} else {
				t = Select(s.heap(name, ArraySort(RefSort, full)), l.Ref)
			}
		case LElem:
			t = Select(Select(s.heap(name, ArraySort(RefSort, ArraySort(IntSort, full))), l.Arr), l.Idx)
		case LGlobal:
			t = s.heap(name, full)
		}
		for _, ix := range idxs {
			t = Select(t, ix)
		}
		ts[i] = t
	}
	v := fromLeaves(ty, ts)
	s.assume(s.wf(v))
	// Values read from heap families that have not changed since entry were already present
	// at entry, so the references among them are older than anything allocated since.
	if s.Entry != nil && l.Kind == LHeap && len(ls) > 0 {
		unchanged := true
		for _, lf := range ls {
			name := fam + "|" + key + "|" + joinName(prefix, lf.Name)
			if cur, ok := s.Heap[name]; ok {
				if old, ok2 := s.Entry.Heap[name]; !ok2 || old != cur {
					unchanged = false
				}
			}
		}
		if unchanged && s.Epoch == s.Entry.Epoch {
			s.assume((&State{Alloc: s.Entry.Alloc}).wf(v))
		}
	}
	return v
}

// arrayFieldOf tells whether leaf lf of a location of type ty (reached by field path
// `prefix` from the root struct) lies in an array-typed field; it returns the field path of
// the array relative to the root, the element family key and the element leaf name.
func arrayFieldOf(prefix string, lf Leaf, ty types.Type) (arrField, elemKey, elemLeaf string) {
	if lf.ElemKey == "" {
		return "", "", ""
	}
	if lf.ArrField != "" {
		return joinName(prefix, lf.ArrField), lf.ElemKey, lf.ElemLeaf
	}
	// ty itself is the array (the location is the array field)
	if _, ok := ty.Underlying().(*types.Array); ok && prefix != "" {
		return prefix, lf.ElemKey, lf.ElemLeaf
	}
	return "", "", ""
}

var embIDs = map[string]int{}

// embRef is the reference under which the array field `field` of the object ref of struct
// family key lives in the element family. References of allocated objects are below 2^24;
// embedded references have the top bit set and carry a field id, so they are distinct from
// each other and from every allocated reference.
func embRef(key, field string, ref *Term) *Term {
	k := key + "|" + field
	id, ok := embIDs[k]
	if !ok {
		id = len(embIDs) + 1
		if id > 127 {
			unsup("too many distinct array fields")
		}
		embIDs[k] = id
	}
	return BOr(BVu(0x80000000|uint64(id)<<24, 32), BAnd(ref, BVu(0x00ffffff, 32)))
}

func nestedStore(arr *Term, idxs []*Term, val *Term) *Term {
	if len(idxs) == 0 {
		return val
	}
	inner := nestedStore(Select(arr, idxs[0]), idxs[1:], val)
	return Store(arr, idxs[0], inner)
}

func (s *State) store(l Loc, v Value) {
	if l.Kind == LChoice {
		// write the value to the selected alternative, leave the other as it is; the write is
		// logged under the selector so that the frame condition concerns the selected one only
		g := s.G
		la, lb := l.alt(true), l.alt(false)
		oa, ob := s.load(la), s.load(lb)
		s.G = And(g, l.Sel)
		s.store(la, iteValue(l.Sel, v, oa))
		s.G = And(g, Not(l.Sel))
		s.store(lb, iteValue(l.Sel, ob, v))
		s.G = g
		return
	}
	switch l.Kind {
	case LHeap:
		prefix, _, _ := pathString(l.Root, l.Path)
		s.logWrite(&WriteRec{Kind: "field", Key: typeKey(l.Root), Prefix: prefix, Ref: l.Ref})
	case LElem:
		prefix, _, _ := pathString(l.Root, l.Path)
		s.logWrite(&WriteRec{Kind: "elem", Key: typeKey(l.Root), Prefix: prefix, Ref: l.Arr, Idx: l.Idx})
	case LGlobal:
		s.logWrite(&WriteRec{Kind: "global", Key: l.Glob})
	case LArr:
		at := l.Ty.Underlying().(*types.Array)
		s.logWrite(&WriteRec{Kind: "range", Key: typeKey(at.Elem()), Ref: l.Arr, Idx: BVi(0, 64), N: BVi(at.Len(), 64)})
	}
	if l.Kind == LArr {
		storeArr(s, l, v)
		return
	}
	if l.Kind == LCell {
		old, ok := s.Cells[l.Cell]
		if !ok && len(l.Path) > 0 {
			unsup("write into unknown local cell %s", l.Cell.Name)
		}
		s.Cells[l.Cell] = cellSet(old, l.Path, v)
		return
	}
	prefix, idxs, ty := pathString(l.Root, l.Path)
	fam, key := famName(l)
	ls := leavesOf(ty)
	vs := flatten(v)
	if len(vs) != len(ls) {
		panic(fmt.Sprintf("store: %d leaves for type %s with %d", len(vs), ty, len(ls)))
	}
	for i, lf := range ls {
		name := fam + "|" + key + "|" + joinName(prefix, lf.Name)
		full := lf.Sort
		for range idxs {
			full = ArraySort(IntSort, full)
		}
		switch l.Kind {
		case LHeap:
			if af, ek, el := arrayFieldOf(prefix, lf, ty); ek != "" && len(idxs) == 0 {
				en := "E|" + ek + "|" + el
				h := s.heap(en, ArraySort(RefSort, lf.Sort))
				s.setHeap(en, Store(h, embRef(key, af, l.Ref), vs[i]))
				continue
			}
			h := s.heap(name, ArraySort(RefSort, full))
			s.setHeap(name, Store(h, l.Ref, nestedStore(Select(h, l.Ref), idxs, vs[i])))
		case LElem:
			h := s.heap(name, ArraySort(RefSort, ArraySort(IntSort, full)))
			row := Select(h, l.Arr)
			s.setHeap(name, Store(h, l.Arr, Store(row, l.Idx, nestedStore(Select(row, l.Idx), idxs, vs[i]))))
		case LGlobal:
			h := s.heap(name, full)
			s.setHeap(name, nestedStore(h, idxs, vs[i]))
		}
	}
}

func cellGet(v Value, path []PathElem) Value {
	for _, p := range path {
		switch x := v.(type) {
		case StV:
			v = x.F[p.Field]
		case ArrV:
			et := x.Ty.Underlying().(*types.Array).Elem()
			ts := make([]*Term, len(x.Leaves))
			for i, l := range x.Leaves {
				ts[i] = Select(l, p.Idx)
			}
			v = fromLeaves(et, ts)
		default:
			unsup("path into %T", v)
		}
	}
	return v
}

func cellSet(old Value, path []PathElem, nv Value) Value {
	if len(path) == 0 {
		return nv
	}
	p := path[0]
	switch x := old.(type) {
	case StV:
		out := StV{Ty: x.Ty, F: append([]Value{}, x.F...)}
		out.F[p.Field] = cellSet(x.F[p.Field], path[1:], nv)
		return out
	case ArrV:
		et := x.Ty.Underlying().(*types.Array).Elem()
		cur := make([]*Term, len(x.Leaves))
		for i, l := range x.Leaves {
			cur[i] = Select(l, p.Idx)
		}
		ne := flatten(cellSet(fromLeaves(et, cur), path[1:], nv))
		out := ArrV{Ty: x.Ty, Leaves: make([]*Term, len(x.Leaves))}
		for i, l := range x.Leaves {
			out.Leaves[i] = Store(l, p.Idx, ne[i])
		}
		return out
	}
	unsup("path store into %T", old)
	return nil
}

// elemLoc gives the location of element i (relative index) of slice sl.
func elemLoc(sl SlV, i *Term) Loc {
	et := sl.Ty.Underlying().(*types.Slice).Elem()
	return Loc{Kind: LElem, Root: et, Arr: sl.Arr, Idx: Add(sl.Off, i), Ty: et}
}

// heapNames returns the sorted names of the heap entries in s (for deterministic output).
func (s *State) heapNames() []string {
	var ns []string
	for k := range s.Heap {
		ns = append(ns, k)
	}
	sort.Strings(ns)
	return ns
}
