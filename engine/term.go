package main

// SMT term DAG (hash-consed) with light simplification and an SMT-LIB2 printer.
// All integers are fixed-width bit-vectors; arrays model heaps and slices.

import (
	"fmt"
	"math/big"
	"sort"
	"strings"
)

type SortKind int

const (
	SBool SortKind = iota
	SBV
	SArray
	SUninterp
)

type Sort struct {
	Kind SortKind
	W    int
	Idx  *Sort
	Elem *Sort
	Name string
	str  string
}

var sortTab = map[string]*Sort{}

func mkSort(s *Sort) *Sort {
	switch s.Kind {
	case SBool:
		s.str = "Bool"
	case SBV:
		s.str = fmt.Sprintf("(_ BitVec %d)", s.W)
	case SArray:
		s.str = fmt.Sprintf("(Array %s %s)", s.Idx.str, s.Elem.str)
	case SUninterp:
		s.str = s.Name
	}
	if o, ok := sortTab[s.str]; ok {
		return o
	}
	sortTab[s.str] = s
	return s
}

var BoolSort = mkSort(&Sort{Kind: SBool})

func BVSort(w int) *Sort           { return mkSort(&Sort{Kind: SBV, W: w}) }
func ArraySort(i, e *Sort) *Sort   { return mkSort(&Sort{Kind: SArray, Idx: i, Elem: e}) }
func UninterpSort(n string) *Sort  { return mkSort(&Sort{Kind: SUninterp, Name: n}) }
func (s *Sort) String() string     { return s.str }

var RefSort = BVSort(32)
var IntSort = BVSort(64)
var StrSort = UninterpSort("Str")

type Term struct {
	id   int
	Op   string
	Args []*Term
	Sort *Sort
	Val  *big.Int // for "const"
	Name string   // for "var" and "app" (function name)
	P1   int      // extract hi / extend amount
	P2   int      // extract lo
}

var termTab = map[string]*Term{}
var termCount int

// declared uninterpreted functions: name -> signature
type FuncDecl struct {
	Name string
	Args []*Sort
	Res  *Sort
}

var funcDecls = map[string]*FuncDecl{}

func mk(t *Term) *Term {
	var sb strings.Builder
	sb.WriteString(t.Op)
	sb.WriteByte('|')
	sb.WriteString(t.Sort.str)
	sb.WriteByte('|')
	if t.Val != nil {
		sb.WriteString(t.Val.String())
	}
	sb.WriteString(t.Name)
	fmt.Fprintf(&sb, "|%d|%d", t.P1, t.P2)
	for _, a := range t.Args {
		fmt.Fprintf(&sb, ",%d", a.id)
	}
	k := sb.String()
	if o, ok := termTab[k]; ok {
		return o
	}
	termCount++
	t.id = termCount
	termTab[k] = t
	return t
}

var True = mk(&Term{Op: "true", Sort: BoolSort})
var False = mk(&Term{Op: "false", Sort: BoolSort})

func Bool(b bool) *Term {
	if b {
		return True
	}
	return False
}

var freshCtr = map[string]int{}

func Var(name string, s *Sort) *Term { return mk(&Term{Op: "var", Name: name, Sort: s}) }
func Fresh(prefix string, s *Sort) *Term {
	prefix = sanitize(prefix)
	freshCtr[prefix]++
	return Var(fmt.Sprintf("%s!%d", prefix, freshCtr[prefix]), s)
}

func sanitize(s string) string {
	var sb strings.Builder
	for _, r := range s {
		if (r >= 'a' && r <= 'z') || (r >= 'A' && r <= 'Z') || (r >= '0' && r <= '9') || r == '_' || r == '.' || r == '!' || r == '$' {
			sb.WriteRune(r)
		} else {
			sb.WriteByte('_')
		}
	}
	return sb.String()
}

func mask(w int) *big.Int {
	m := new(big.Int).Lsh(big.NewInt(1), uint(w))
	return m.Sub(m, big.NewInt(1))
}

func BV(v *big.Int, w int) *Term {
	x := new(big.Int).And(v, mask(w))
	return mk(&Term{Op: "const", Val: x, Sort: BVSort(w)})
}
func BVi(v int64, w int) *Term { return BV(big.NewInt(v), w) }
func BVu(v uint64, w int) *Term { return BV(new(big.Int).SetUint64(v), w) }

func (t *Term) IsConst() bool { return t.Op == "const" }
func (t *Term) IsTrue() bool  { return t == True }
func (t *Term) IsFalse() bool { return t == False }

func (t *Term) signed() *big.Int {
	w := t.Sort.W
	v := new(big.Int).Set(t.Val)
	if v.Bit(w-1) == 1 {
		v.Sub(v, new(big.Int).Lsh(big.NewInt(1), uint(w)))
	}
	return v
}

// ---- boolean connectives ----

func Not(a *Term) *Term {
	switch {
	case a == True:
		return False
	case a == False:
		return True
	case a.Op == "not":
		return a.Args[0]
	}
	return mk(&Term{Op: "not", Args: []*Term{a}, Sort: BoolSort})
}

func And(as ...*Term) *Term {
	var out []*Term
	seen := map[int]bool{}
	for _, a := range as {
		if a == False {
			return False
		}
		if a == True || seen[a.id] {
			continue
		}
		if a.Op == "and" {
			for _, b := range a.Args {
				if !seen[b.id] {
					seen[b.id] = true
					out = append(out, b)
				}
			}
			continue
		}
		seen[a.id] = true
		out = append(out, a)
	}
	for _, a := range out {
		if a.Op == "not" && seen[a.Args[0].id] {
			return False
		}
	}
	if len(out) == 0 {
		return True
	}
	if len(out) == 1 {
		return out[0]
	}
	return mk(&Term{Op: "and", Args: out, Sort: BoolSort})
}

func Or(as ...*Term) *Term {
	var out []*Term
	seen := map[int]bool{}
	for _, a := range as {
		if a == True {
			return True
		}
		if a == False || seen[a.id] {
			continue
		}
		if a.Op == "or" {
			for _, b := range a.Args {
				if !seen[b.id] {
					seen[b.id] = true
					out = append(out, b)
				}
			}
			continue
		}
		seen[a.id] = true
		out = append(out, a)
	}
	for _, a := range out {
		if a.Op == "not" && seen[a.Args[0].id] {
			return True
		}
	}
	if len(out) == 0 {
		return False
	}
	if len(out) == 1 {
		return out[0]
	}
	return mk(&Term{Op: "or", Args: out, Sort: BoolSort})
}

func Implies(a, b *Term) *Term { return Or(Not(a), b) }

func Ite(c, a, b *Term) *Term {
	if c == True {
		return a
	}
	if c == False {
		return b
	}
	if a == b {
		return a
	}
	if a.Sort != b.Sort {
		panic(fmt.Sprintf("ite sort mismatch %s vs %s", a.Sort, b.Sort))
	}
	if a.Sort == BoolSort {
		if a == True && b == False {
			return c
		}
		if a == False && b == True {
			return Not(c)
		}
		if a == True {
			return Or(c, b)
		}
		if b == False {
			return And(c, a)
		}
		if a == False {
			return And(Not(c), b)
		}
		if b == True {
			return Or(Not(c), a)
		}
	}
	return mk(&Term{Op: "ite", Args: []*Term{c, a, b}, Sort: a.Sort})
}

func Eq(a, b *Term) *Term {
	if a == b {
		return True
	}
	if a.Sort != b.Sort {
		panic(fmt.Sprintf("eq sort mismatch %s vs %s (%s , %s)", a.Sort, b.Sort, a, b))
	}
	if a.IsConst() && b.IsConst() {
		return Bool(a.Val.Cmp(b.Val) == 0)
	}
	if a.Sort.Kind == SBV {
		if isCaseTable(a) && b.IsConst() {
			return mapLeaves(a, func(x *Term) *Term { return Eq(x, b) })
		}
		if isCaseTable(b) && a.IsConst() {
			return mapLeaves(b, func(y *Term) *Term { return Eq(a, y) })
		}
	}
	if a.Sort == BoolSort {
		if a == True {
			return b
		}
		if b == True {
			return a
		}
		if a == False {
			return Not(b)
		}
		if b == False {
			return Not(a)
		}
	}
	if a.id > b.id {
		a, b = b, a
	}
	return mk(&Term{Op: "=", Args: []*Term{a, b}, Sort: BoolSort})
}

func Neq(a, b *Term) *Term { return Not(Eq(a, b)) }

// ---- bit-vector ops ----

// constIteLeaves counts the leaves of t if t is a constant or an ite tree whose leaves are
// all constants; 0 otherwise. Operations on such "case tables" are pushed to the leaves so
// that indices and offsets that are one of a few constants stay syntactically constant.
func constIteLeaves(t *Term) int {
	if t.IsConst() {
		return 1
	}
	if t.Op == "ite" {
		a := constIteLeaves(t.Args[1])
		if a == 0 {
			return 0
		}
		b := constIteLeaves(t.Args[2])
		if b == 0 {
			return 0
		}
		return a + b
	}
	return 0
}

func isCaseTable(t *Term) bool {
	if t.Op != "ite" {
		return false
	}
	n := constIteLeaves(t)
	return n >= 2 && n <= 8
}

// mapLeaves applies f to every constant leaf of a case table.
func mapLeaves(t *Term, f func(*Term) *Term) *Term {
	if t.Op == "ite" {
		return Ite(t.Args[0], mapLeaves(t.Args[1], f), mapLeaves(t.Args[2], f))
	}
	return f(t)
}

func bvbin(op string, a, b *Term) *Term {
	if a.Sort != b.Sort || a.Sort.Kind != SBV {
		panic(fmt.Sprintf("%s sort mismatch %s vs %s", op, a.Sort, b.Sort))
	}
	w := a.Sort.W
	if isCaseTable(a) && b.IsConst() {
		return mapLeaves(a, func(x *Term) *Term { return bvbin(op, x, b) })
	}
	if isCaseTable(b) && a.IsConst() {
		return mapLeaves(b, func(y *Term) *Term { return bvbin(op, a, y) })
	}
	if a.IsConst() && b.IsConst() {
		x, y := a.Val, b.Val
		r := new(big.Int)
		switch op {
		case "bvadd":
			return BV(r.Add(x, y), w)
		case "bvsub":
			return BV(r.Sub(x, y), w)
		case "bvmul":
			return BV(r.Mul(x, y), w)
		case "bvand":
			return BV(r.And(x, y), w)
		case "bvor":
			return BV(r.Or(x, y), w)
		case "bvxor":
			return BV(r.Xor(x, y), w)
		case "bvshl":
			if y.Cmp(big.NewInt(int64(w))) >= 0 {
				return BVi(0, w)
			}
			return BV(r.Lsh(x, uint(y.Uint64())), w)
		case "bvlshr":
			if y.Cmp(big.NewInt(int64(w))) >= 0 {
				return BVi(0, w)
			}
			return BV(r.Rsh(x, uint(y.Uint64())), w)
		case "bvashr":
			sx := a.signed()
			sh := uint(w)
			if y.Cmp(big.NewInt(int64(w))) < 0 {
				sh = uint(y.Uint64())
			}
			return BV(r.Rsh(sx, sh), w)
		case "bvudiv":
			if y.Sign() != 0 {
				return BV(r.Div(x, y), w)
			}
		case "bvurem":
			if y.Sign() != 0 {
				return BV(r.Mod(x, y), w)
			}
		case "bvsdiv":
			if y.Sign() != 0 {
				return BV(r.Quo(a.signed(), b.signed()), w)
			}
		case "bvsrem":
			if y.Sign() != 0 {
				return BV(r.Rem(a.signed(), b.signed()), w)
			}
		}
	}
	zero := func(t *Term) bool { return t.IsConst() && t.Val.Sign() == 0 }
	switch op {
	case "bvadd":
		if zero(a) {
			return b
		}
		if zero(b) {
			return a
		}
		// (x + c1) + c2
		if b.IsConst() && a.Op == "bvadd" && a.Args[1].IsConst() {
			return bvbin("bvadd", a.Args[0], BV(new(big.Int).Add(a.Args[1].Val, b.Val), w))
		}
		if a.IsConst() && !b.IsConst() {
			return bvbin("bvadd", b, a)
		}
	case "bvsub":
		if zero(b) {
			return a
		}
		if a == b {
			return BVi(0, w)
		}
		if b.IsConst() {
			return bvbin("bvadd", a, BV(new(big.Int).Neg(b.Val), w))
		}
	case "bvor", "bvxor":
		if zero(a) {
			return b
		}
		if zero(b) {
			return a
		}
	case "bvand":
		if zero(a) || zero(b) {
			return BVi(0, w)
		}
		if a == b {
			return a
		}
		if b.IsConst() && b.Val.Cmp(mask(w)) == 0 {
			return a
		}
		if a.IsConst() && a.Val.Cmp(mask(w)) == 0 {
			return b
		}
	case "bvshl", "bvlshr", "bvashr":
		if zero(b) {
			return a
		}
	case "bvmul":
		if zero(a) || zero(b) {
			return BVi(0, w)
		}
		if b.IsConst() && b.Val.Cmp(big.NewInt(1)) == 0 {
			return a
		}
		if a.IsConst() && a.Val.Cmp(big.NewInt(1)) == 0 {
			return b
		}
	}
	return mk(&Term{Op: op, Args: []*Term{a, b}, Sort: a.Sort})
}

func Add(a, b *Term) *Term  { return bvbin("bvadd", a, b) }
func Sub(a, b *Term) *Term  { return bvbin("bvsub", a, b) }
func Mul(a, b *Term) *Term  { return bvbin("bvmul", a, b) }
func BAnd(a, b *Term) *Term { return bvbin("bvand", a, b) }
func BOr(a, b *Term) *Term  { return bvbin("bvor", a, b) }
func BXor(a, b *Term) *Term { return bvbin("bvxor", a, b) }
func Shl(a, b *Term) *Term  { return bvbin("bvshl", a, b) }
func LShr(a, b *Term) *Term { return bvbin("bvlshr", a, b) }
func AShr(a, b *Term) *Term { return bvbin("bvashr", a, b) }
func UDiv(a, b *Term) *Term { return bvbin("bvudiv", a, b) }
func URem(a, b *Term) *Term { return bvbin("bvurem", a, b) }
func SDiv(a, b *Term) *Term { return bvbin("bvsdiv", a, b) }
func SRem(a, b *Term) *Term { return bvbin("bvsrem", a, b) }

func BNot(a *Term) *Term {
	if a.IsConst() {
		return BV(new(big.Int).Xor(a.Val, mask(a.Sort.W)), a.Sort.W)
	}
	return mk(&Term{Op: "bvnot", Args: []*Term{a}, Sort: a.Sort})
}
func Neg(a *Term) *Term {
	if a.IsConst() {
		return BV(new(big.Int).Neg(a.Val), a.Sort.W)
	}
	return mk(&Term{Op: "bvneg", Args: []*Term{a}, Sort: a.Sort})
}

func bvcmp(op string, a, b *Term) *Term {
	if a.Sort != b.Sort || a.Sort.Kind != SBV {
		panic(fmt.Sprintf("%s sort mismatch %s vs %s", op, a.Sort, b.Sort))
	}
	if a.IsConst() && b.IsConst() {
		switch op {
		case "bvult":
			return Bool(a.Val.Cmp(b.Val) < 0)
		case "bvule":
			return Bool(a.Val.Cmp(b.Val) <= 0)
		case "bvslt":
			return Bool(a.signed().Cmp(b.signed()) < 0)
		case "bvsle":
			return Bool(a.signed().Cmp(b.signed()) <= 0)
		}
	}
	if a == b {
		return Bool(op == "bvule" || op == "bvsle")
	}
	if isCaseTable(a) && b.IsConst() {
		return mapLeaves(a, func(x *Term) *Term { return bvcmp(op, x, b) })
	}
	if isCaseTable(b) && a.IsConst() {
		return mapLeaves(b, func(y *Term) *Term { return bvcmp(op, a, y) })
	}
	// interval reasoning on small non-negative quantities (constants, zero extensions and their
	// sums): decides comparisons such as 6 > 6 + zext16(m)
	if a.Sort.Kind == SBV && a.Sort.W == 64 {
		if la, ha, oka := smallRange(a, 0); oka {
			if lb, hb, okb := smallRange(b, 0); okb {
				switch op {
				case "bvult", "bvslt":
					if ha < lb {
						return True
					}
					if la >= hb {
						return False
					}
				case "bvule", "bvsle":
					if ha <= lb {
						return True
					}
					if la > hb {
						return False
					}
				}
			}
		}
	}
	return mk(&Term{Op: op, Args: []*Term{a, b}, Sort: BoolSort})
}

// smallRange: an interval [lo, hi] within [0, 2^40] that is known to contain the unsigned (and
// signed) value of a 64-bit term built from constants, zero extensions and additions.
func smallRange(t *Term, depth int) (int64, int64, bool) {
	const lim = int64(1) << 40
	if depth > 8 {
		return 0, 0, false
	}
	switch {
	case t.IsConst():
		if t.Val.IsInt64() && t.Val.Int64() >= 0 && t.Val.Int64() <= lim {
			return t.Val.Int64(), t.Val.Int64(), true
		}
	case t.Op == "zero_extend":
		w := t.Args[0].Sort.W
		if w <= 32 {
			return 0, (int64(1) << uint(w)) - 1, true
		}
	case t.Op == "bvadd":
		l1, h1, ok1 := smallRange(t.Args[0], depth+1)
		l2, h2, ok2 := smallRange(t.Args[1], depth+1)
		if ok1 && ok2 && h1+h2 <= lim {
			return l1 + l2, h1 + h2, true
		}
	}
	return 0, 0, false
}

func ULt(a, b *Term) *Term { return bvcmp("bvult", a, b) }
func ULe(a, b *Term) *Term { return bvcmp("bvule", a, b) }
func SLt(a, b *Term) *Term { return bvcmp("bvslt", a, b) }
func SLe(a, b *Term) *Term { return bvcmp("bvsle", a, b) }

func Extract(hi, lo int, a *Term) *Term {
	if lo == 0 && hi == a.Sort.W-1 {
		return a
	}
	if a.IsConst() {
		return BV(new(big.Int).Rsh(a.Val, uint(lo)), hi-lo+1)
	}
	// extract of zero_extend within original
	if (a.Op == "zero_extend" || a.Op == "sign_extend") && hi < a.Args[0].Sort.W {
		return Extract(hi, lo, a.Args[0])
	}
	if a.Op == "zero_extend" && lo >= a.Args[0].Sort.W {
		return BVi(0, hi-lo+1)
	}
	if a.Op == "concat" {
		lw := a.Args[1].Sort.W
		if hi < lw {
			return Extract(hi, lo, a.Args[1])
		}
		if lo >= lw {
			return Extract(hi-lw, lo-lw, a.Args[0])
		}
	}
	return mk(&Term{Op: "extract", Args: []*Term{a}, Sort: BVSort(hi - lo + 1), P1: hi, P2: lo})
}

func ZExt(a *Term, w int) *Term {
	if a.Sort.W == w {
		return a
	}
	if a.Sort.W > w {
		return Extract(w-1, 0, a)
	}
	if a.IsConst() {
		return BV(a.Val, w)
	}
	if a.Op == "zero_extend" {
		return ZExt(a.Args[0], w)
	}
	return mk(&Term{Op: "zero_extend", Args: []*Term{a}, Sort: BVSort(w), P1: w - a.Sort.W})
}

func SExt(a *Term, w int) *Term {
	if a.Sort.W == w {
		return a
	}
	if a.Sort.W > w {
		return Extract(w-1, 0, a)
	}
	if a.IsConst() {
		return BV(a.signed(), w)
	}
	return mk(&Term{Op: "sign_extend", Args: []*Term{a}, Sort: BVSort(w), P1: w - a.Sort.W})
}

func Concat(a, b *Term) *Term {
	if a.IsConst() && b.IsConst() {
		v := new(big.Int).Lsh(a.Val, uint(b.Sort.W))
		v.Or(v, b.Val)
		return BV(v, a.Sort.W+b.Sort.W)
	}
	return mk(&Term{Op: "concat", Args: []*Term{a, b}, Sort: BVSort(a.Sort.W + b.Sort.W)})
}

// ---- arrays ----

// distinctConst reports whether a and b are syntactically known to differ.
func knownDistinct(a, b *Term) bool {
	if a.IsConst() && b.IsConst() {
		return a.Val.Cmp(b.Val) != 0
	}
	// x + c1 vs x + c2
	base := func(t *Term) (*Term, *big.Int) {
		if t.Op == "bvadd" && t.Args[1].IsConst() {
			return t.Args[0], t.Args[1].Val
		}
		return t, big.NewInt(0)
	}
	ba, ca := base(a)
	bb, cb := base(b)
	if ba == bb && !ba.IsConst() {
		d := new(big.Int).Sub(ca, cb)
		d.And(d, mask(a.Sort.W))
		return d.Sign() != 0
	}
	return false
}

func Select(arr, idx *Term) *Term {
	if arr.Sort.Kind != SArray {
		panic("select on non-array " + arr.Sort.str)
	}
	if arr.Sort.Idx != idx.Sort {
		panic(fmt.Sprintf("select index sort %s want %s", idx.Sort, arr.Sort.Idx))
	}
	if isCaseTable(idx) && (arr.Op == "store" || arr.Op == "ite") {
		return mapLeaves(idx, func(i *Term) *Term { return Select(arr, i) })
	}
	for arr.Op == "store" {
		if arr.Args[1] == idx {
			return arr.Args[2]
		}
		if knownDistinct(arr.Args[1], idx) {
			arr = arr.Args[0]
			continue
		}
		break
	}
	if arr.Op == "constarr" {
		return arr.Args[0]
	}
	if arr.Op == "ite" && (arr.Args[1].Op == "store" || arr.Args[2].Op == "store" || arr.Args[1].Op == "ite" || arr.Args[2].Op == "ite") {
		// push the read into the branches so that reads over stores simplify
		return Ite(arr.Args[0], Select(arr.Args[1], idx), Select(arr.Args[2], idx))
	}
	return mk(&Term{Op: "select", Args: []*Term{arr, idx}, Sort: arr.Sort.Elem})
}

func Store(arr, idx, val *Term) *Term {
	if arr.Sort.Kind != SArray || arr.Sort.Idx != idx.Sort || arr.Sort.Elem != val.Sort {
		panic(fmt.Sprintf("store sorts: arr %s idx %s val %s", arr.Sort, idx.Sort, val.Sort))
	}
	if arr.Op == "store" && arr.Args[1] == idx {
		arr = arr.Args[0]
	}
	if isCaseTable(idx) {
		return mapLeaves(idx, func(i *Term) *Term { return Store(arr, i, val) })
	}
	return mk(&Term{Op: "store", Args: []*Term{arr, idx, val}, Sort: arr.Sort})
}

func ConstArr(s *Sort, v *Term) *Term {
	return mk(&Term{Op: "constarr", Args: []*Term{v}, Sort: s})
}

// App applies an uninterpreted function (declared on first use).
func App(name string, res *Sort, args ...*Term) *Term {
	if _, ok := funcDecls[name]; !ok {
		fd := &FuncDecl{Name: name, Res: res}
		for _, a := range args {
			fd.Args = append(fd.Args, a.Sort)
		}
		funcDecls[name] = fd
	}
	return mk(&Term{Op: "app", Name: name, Args: args, Sort: res})
}

// ---- printing ----

func (t *Term) String() string {
	var sb strings.Builder
	printTerm(&sb, t, nil)
	s := sb.String()
	if len(s) > 400 {
		s = s[:400] + "..."
	}
	return s
}

func bvLit(v *big.Int, w int) string {
	if w%4 == 0 {
		return fmt.Sprintf("#x%0*s", w/4, v.Text(16))
	}
	return fmt.Sprintf("#b%0*s", w, v.Text(2))
}

func zeroOf(s *Sort) *Term {
	switch s.Kind {
	case SBool:
		return False
	case SBV:
		return BVi(0, s.W)
	case SArray:
		return ConstArr(s, zeroOf(s.Elem))
	}
	return Var("zero_"+s.Name, s)
}

func printTerm(sb *strings.Builder, t *Term, names map[int]string) {
	if names != nil {
		if n, ok := names[t.id]; ok {
			sb.WriteString(n)
			return
		}
	}
	switch t.Op {
	case "true", "false":
		sb.WriteString(t.Op)
	case "const":
		sb.WriteString(bvLit(t.Val, t.Sort.W))
	case "var":
		sb.WriteString(quoteName(t.Name))
	case "extract":
		fmt.Fprintf(sb, "((_ extract %d %d) ", t.P1, t.P2)
		printTerm(sb, t.Args[0], names)
		sb.WriteByte(')')
	case "zero_extend", "sign_extend":
		fmt.Fprintf(sb, "((_ %s %d) ", t.Op, t.P1)
		printTerm(sb, t.Args[0], names)
		sb.WriteByte(')')
	case "constarr":
		fmt.Fprintf(sb, "((as const %s) ", t.Sort.str)
		printTerm(sb, t.Args[0], names)
		sb.WriteByte(')')
	case "app":
		if len(t.Args) == 0 {
			sb.WriteString(quoteName(t.Name))
			return
		}
		sb.WriteByte('(')
		sb.WriteString(quoteName(t.Name))
		for _, a := range t.Args {
			sb.WriteByte(' ')
			printTerm(sb, a, names)
		}
		sb.WriteByte(')')
	default:
		sb.WriteByte('(')
		sb.WriteString(t.Op)
		for _, a := range t.Args {
			sb.WriteByte(' ')
			printTerm(sb, a, names)
		}
		sb.WriteByte(')')
	}
}

func quoteName(n string) string {
	n = strings.ReplaceAll(n, "|", "::")
	for _, r := range n {
		if !((r >= 'a' && r <= 'z') || (r >= 'A' && r <= 'Z') || (r >= '0' && r <= '9') || r == '_' || r == '.' || r == '!' || r == '$') {
			return "|" + n + "|"
		}
	}
	return n
}

// collect gathers the cone of the given roots in topological order.
func collect(roots []*Term) []*Term {
	seen := map[int]bool{}
	var order []*Term
	var visit func(t *Term)
	visit = func(t *Term) {
		if seen[t.id] {
			return
		}
		seen[t.id] = true
		for _, a := range t.Args {
			visit(a)
		}
		order = append(order, t)
	}
	for _, r := range roots {
		visit(r)
	}
	return order
}

// Script renders a query asserting all the given formulas.
// Shared non-leaf nodes are emitted as define-fun to keep the text linear in the DAG size.
func Script(asserts []*Term, logic string, getValues []*Term) string {
	s, _ := ScriptEx(asserts, logic, getValues, nil)
	return s
}

// ScriptEx also returns the printed form of the given conditions (sub-terms of the asserts),
// usable in extra (assert ...) lines appended before (check-sat) for a case split.
func ScriptEx(asserts []*Term, logic string, getValues []*Term, conds []*Term) (string, []string) {
	roots := append([]*Term{}, asserts...)
	roots = append(roots, getValues...)
	order := collect(roots)
	uses := map[int]int{}
	for _, t := range order {
		for _, a := range t.Args {
			uses[a.id]++
		}
	}
	var sb strings.Builder
	if logic != "" {
		fmt.Fprintf(&sb, "(set-logic %s)\n", logic)
	}
	sorts := map[string]bool{}
	var declSort func(s *Sort)
	declSort = func(s *Sort) {
		switch s.Kind {
		case SUninterp:
			if !sorts[s.Name] {
				sorts[s.Name] = true
				fmt.Fprintf(&sb, "(declare-sort %s 0)\n", s.Name)
			}
		case SArray:
			declSort(s.Idx)
			declSort(s.Elem)
		}
	}
	funcs := map[string]bool{}
	var vars []*Term
	for _, t := range order {
		declSort(t.Sort)
		if t.Op == "var" {
			vars = append(vars, t)
		}
		if t.Op == "app" && !funcs[t.Name] {
			funcs[t.Name] = true
		}
	}
	sort.Slice(vars, func(i, j int) bool { return vars[i].Name < vars[j].Name })
	for _, v := range vars {
		fmt.Fprintf(&sb, "(declare-fun %s () %s)\n", quoteName(v.Name), v.Sort.str)
	}
	var fnames []string
	for n := range funcs {
		fnames = append(fnames, n)
	}
	sort.Strings(fnames)
	for _, n := range fnames {
		fd := funcDecls[n]
		for _, a := range fd.Args {
			declSort(a)
		}
		declSort(fd.Res)
		var as []string
		for _, a := range fd.Args {
			as = append(as, a.str)
		}
		fmt.Fprintf(&sb, "(declare-fun %s (%s) %s)\n", quoteName(n), strings.Join(as, " "), fd.Res.str)
	}
	names := map[int]string{}
	for _, t := range order {
		if len(t.Args) == 0 {
			continue
		}
		if uses[t.id] >= 2 {
			nm := fmt.Sprintf("$t%d", t.id)
			fmt.Fprintf(&sb, "(define-fun %s () %s ", nm, t.Sort.str)
			printTerm(&sb, t, shallow(names, t))
			sb.WriteString(")\n")
			names[t.id] = nm
		}
	}
	for _, a := range asserts {
		sb.WriteString("(assert ")
		printTerm(&sb, a, names)
		sb.WriteString(")\n")
	}
	sb.WriteString("(check-sat)\n")
	if len(getValues) > 0 {
		sb.WriteString("(get-value (")
		for i, g := range getValues {
			if i > 0 {
				sb.WriteByte(' ')
			}
			printTerm(&sb, g, names)
		}
		sb.WriteString("))\n")
	}
	var cs []string
	for _, c := range conds {
		var cb strings.Builder
		printTerm(&cb, c, names)
		cs = append(cs, cb.String())
	}
	return sb.String(), cs
}

// splitConds proposes conditions for a case split: the conditions of ite terms (typically the
// path selectors of merged states) in the cone of the asserts, most frequent first, at most max.
func splitConds(asserts []*Term, max int) []*Term {
	count := map[int]int{}
	byID := map[int]*Term{}
	for _, t := range collect(asserts) {
		if t.Op == "ite" {
			c := t.Args[0]
			if c.Op == "not" {
				c = c.Args[0]
			}
			count[c.id]++
			byID[c.id] = c
		}
	}
	var ids []int
	for id := range count {
		ids = append(ids, id)
	}
	sort.Slice(ids, func(i, j int) bool {
		if count[ids[i]] != count[ids[j]] {
			return count[ids[i]] > count[ids[j]]
		}
		return ids[i] < ids[j]
	})
	var out []*Term
	for _, id := range ids {
		if len(out) >= max {
			break
		}
		out = append(out, byID[id])
	}
	return out
}

// shallow returns names without the entry for t itself (so its definition prints its body).
func shallow(names map[int]string, t *Term) map[int]string {
	return names
}
