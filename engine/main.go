package main

import (
	"encoding/json"
	"flag"
	"fmt"
	"os"
	"path/filepath"
	"regexp"
	"runtime/debug"
	"runtime/pprof"
	"sort"
	"strconv"
	"go/types"
	"strings"
	"time"

	"golang.org/x/tools/go/ssa"
)

type PropCfg struct {
	Packages    []string `json:"packages"`
	Sweep       []string `json:"sweep"` // packages whose functions get zero-annotation safety obligations
	SweepOnly   []string `json:"sweep_only"`
	SweepExcl   string   `json:"sweep_exclude"` // regexp: functions without contract that are not swept (reported as not covered)
	NotCovered  []string `json:"not_covered"`
	Assumptions []string `json:"assumptions"`
	Bounded     []string `json:"bounded"`
	Explanation string   `json:"explanation"`
	Level       string   `json:"level"` // evidence level (default proof); "other" for checks whose main part is a bounded stand-in
	MinObls     int      `json:"min_obligations"`
}

type Finding struct {
	Kind       string // finding | fixed
	Property   string
	Obligation string
	Text       string
}

func loadFindings(path string) []Finding {
	data, err := os.ReadFile(path)
	if err != nil {
		return nil
	}
	var out []Finding
	for _, line := range strings.Split(string(data), "\n") {
		line = strings.TrimSpace(line)
		if line == "" || strings.HasPrefix(line, "#") {
			continue
		}
		var f Finding
		switch {
		case strings.HasPrefix(line, "finding:"):
			f.Kind = "finding"
			line = strings.TrimSpace(strings.TrimPrefix(line, "finding:"))
		case strings.HasPrefix(line, "fixed:"):
			f.Kind = "fixed"
			line = strings.TrimSpace(strings.TrimPrefix(line, "fixed:"))
		default:
			continue
		}
		for _, tok := range splitQuoted(line) {
			switch {
			case strings.HasPrefix(tok, "property="):
				f.Property = strings.TrimPrefix(tok, "property=")
			case strings.HasPrefix(tok, "obligation="):
				f.Obligation = strings.Trim(strings.TrimPrefix(tok, "obligation="), "\"")
			default:
				f.Text += tok + " "
			}
		}
		f.Text = strings.TrimSpace(f.Text)
		out = append(out, f)
	}
	return out
}

func splitQuoted(s string) []string {
	var out []string
	var cur strings.Builder
	inq := false
	for _, r := range s {
		switch {
		case r == '"':
			inq = !inq
			cur.WriteRune(r)
		case r == ' ' && !inq:
			if cur.Len() > 0 {
				out = append(out, cur.String())
				cur.Reset()
			}
		default:
			cur.WriteRune(r)
		}
	}
	if cur.Len() > 0 {
		out = append(out, cur.String())
	}
	return out
}

func levelOf(l string) string {
	if l == "" {
		return "proof"
	}
	return l
}

func main() {
	repo := flag.String("repo", "/repo", "repository root")
	verif := flag.String("verif", "/verif", "verification root")
	prop := flag.String("prop", "", "property id")
	namesOut := flag.String("names-out", "", "merge the declared names of the functions under contract for -prop into this JSON file and exit")
	tier := flag.String("tier", "quick", "quick|thorough")
	fnRe := flag.String("fn", "", "only functions matching this regexp (debug)")
	verbose := flag.Bool("v", false, "verbose")
	keep := flag.Bool("keep", false, "keep all SMT files")
	dump := flag.String("dump", "", "dump SSA of functions matching regexp and exit")
	sweepPk := flag.String("sweep", "", "debug: sweep this package pattern")
	flag.Parse()
	currentProp = *prop
	t0 := time.Now()
	debug.SetGCPercent(800) // term DAGs are long-lived; collect rarely
	if pf := os.Getenv("VERIF_PROF"); pf != "" {
		f, _ := os.Create(pf)
		pprof.StartCPUProfile(f)
		defer pprof.StopCPUProfile()
	}
	seed := 0
	if s := os.Getenv("VERIF_SEED"); s != "" {
		seed, _ = strconv.Atoi(s)
	}
	if os.Getenv("VERIF_TIER") != "" && *tier == "" {
		*tier = os.Getenv("VERIF_TIER")
	}
	cfgs := map[string]*PropCfg{}
	if data, err := os.ReadFile(filepath.Join(*verif, "props.json")); err == nil {
		if err := json.Unmarshal(data, &cfgs); err != nil {
			fatal("props.json: %v", err)
		}
	}
	cfg := cfgs[*prop]
	if cfg == nil {
		cfg = &PropCfg{}
	}
	patterns := append([]string{}, cfg.Packages...)
	patterns = append(patterns, cfg.Sweep...)
	if *sweepPk != "" {
		patterns = append(patterns, *sweepPk)
		cfg.Sweep = append(cfg.Sweep, *sweepPk)
	}
	if len(patterns) == 0 {
		fatal("no packages configured for property %q", *prop)
	}
	P, err := loadProg(*repo, patterns, "verif")
	if err != nil {
		fatal("load: %v", err)
	}
	if len(P.loadErrs) > 0 {
		// type errors in the packages under verification make the SSA unreliable
		fmt.Fprintf(os.Stderr, "load errors:\n%s\n", strings.Join(P.loadErrs, "\n"))
		fatal("packages do not type-check")
	}
	if *dump != "" {
		re := regexp.MustCompile(*dump)
		for _, p := range P.pkgs {
			sp := P.prog.Package(p.Types)
			if sp == nil {
				continue
			}
			for _, f := range P.pkgFunctions(sp) {
				if re.MatchString(f.String()) {
					f.WriteTo(os.Stdout)
				}
			}
		}
		return
	}
	var filter *regexp.Regexp
	if *fnRe != "" {
		filter = regexp.MustCompile(*fnRe)
	}
	// collect work
	var reports []*FnReport
	underContract := []string{}
	sweepSet := map[string]bool{}
	for _, pat := range cfg.Sweep {
		sweepSet[strings.TrimPrefix(pat, "./")] = true
	}
	var keys []string
	for k := range P.contracts {
		keys = append(keys, k)
	}
	sort.Strings(keys)
	done := map[*ssa.Function]bool{}
	namesCollected := map[string][]string{}
	if data, err := os.ReadFile(filepath.Join(*verif, "names.json")); err == nil {
		json.Unmarshal(data, &P.nameSnap)
	}
	var sweepExcl *regexp.Regexp
	if cfg.SweepExcl != "" {
		sweepExcl = regexp.MustCompile(cfg.SweepExcl)
	}
	var excluded []string
	for _, p := range P.pkgs {
		sp := P.prog.Package(p.Types)
		if sp == nil {
			continue
		}
		rel := strings.TrimPrefix(strings.TrimPrefix(p.PkgPath, P.modulePath), "/")
		for _, fn := range P.pkgFunctions(sp) {
			if fn.Synthetic != "" || len(fn.Blocks) == 0 {
				continue
			}
			ct := P.contractOf(fn)
			want := false
			if ct != nil && !ct.NoBody && hasProp(ct.Props, *prop) {
				want = true
			}
			if ct == nil && sweepSet[rel] {
				want = true
				if sweepExcl != nil && sweepExcl.MatchString(fn.String()) {
					want = false
					excluded = append(excluded, fn.String())
				}
			}
			if ct != nil && sweepSet[rel] {
				want = true
			}
			if filter != nil && !filter.MatchString(fn.String()) {
				want = false
			}
			if !want || done[fn] {
				continue
			}
			done[fn] = true
			if ct != nil && ct.Trusted {
				reports = append(reports, &FnReport{Fn: fn.String(), HasCtr: true, Notes: []string{"contract of " + fn.String() + " is TRUSTED (body not verified)"}})
				continue
			}
			if *namesOut != "" {
				if ct != nil {
					namesCollected[fn.String()] = declNames(fn)
				}
				continue
			}
			rep := P.verifyFunction(fn, ct)
			for _, o := range rep.Obls {
				if len(o.Props) == 0 {
					o.Props = []string{*prop}
				}
			}
			reports = append(reports, rep)
			if ct != nil {
				underContract = append(underContract, fn.String())
			}
		}
	}
	if *namesOut != "" {
		merged := map[string][]string{}
		if data, err := os.ReadFile(*namesOut); err == nil {
			json.Unmarshal(data, &merged)
		}
		for k, v := range namesCollected {
			merged[k] = v
		}
		data, _ := json.MarshalIndent(merged, "", " ")
		os.WriteFile(*namesOut, data, 0o644)
		fmt.Printf("names: %d functions recorded for %s (%d in file)\n", len(namesCollected), *prop, len(merged))
		return
	}
	for _, l := range P.lemmas {
		if !hasProp(l.Props, *prop) && !P.usedLemmas[l.Name] {
			continue
		}
		if filter != nil && !filter.MatchString("lemma "+l.Name) {
			continue
		}
		reports = append(reports, P.verifyLemma(l))
		underContract = append(underContract, "lemma "+l.Name)
	}
	// contracts that did not bind
	var bindFail []string
	for _, k := range keys {
		c := P.contracts[k]
		if hasProp(c.Props, *prop) && !c.bound && filter == nil {
			// try to find the function
			found := false
			for _, p := range P.pkgs {
				if p.PkgPath == c.Pkg {
					found = true
					// a contract of an interface method binds when a call site uses it; one that no
					// function verified in this run happens to call is not missing: it is enough
					// that the interface still declares the method
					if c.NoBody && ifaceMethodExists(p.Types, c.FnName) {
						found = false
					}
				}
			}
			if found {
				bindFail = append(bindFail, k)
			}
		}
	}
	var obls []*Obligation
	var engineErrs []string
	for _, r := range reports {
		obls = append(obls, r.Obls...)
		if r.Err != "" {
			engineErrs = append(engineErrs, r.Fn+": "+r.Err)
		}
	}
	timeout := 60 * time.Second
	if *tier == "thorough" {
		timeout = 300 * time.Second
	}
	if s := os.Getenv("VERIF_TIMEOUT"); s != "" {
		if n, err := strconv.Atoi(s); err == nil {
			timeout = time.Duration(n) * time.Second
		}
	}
	work := filepath.Join(*verif, "work", *prop+"-"+*tier)
	os.RemoveAll(work)
	P.discharge(obls, SolveOpts{Dir: work, Timeout: timeout, TwoAgree: *tier == "thorough", Workers: 8, KeepSMT: *keep})

	// results
	findings := loadFindings(filepath.Join(*verif, "KNOWN_FINDINGS"))
	known := map[string]Finding{}
	for _, f := range findings {
		if f.Kind == "finding" && f.Property == *prop {
			known[f.Obligation] = f
		}
	}
	nObl, nDis := 0, 0
	bySolver := map[string]int{}
	nBoundedOK := 0
	nUnconfirmed := 0
	var coverUndecided []string
	boundedNotes := map[string]bool{}
	var totalMs int64
	var samples []map[string]interface{}
	violations := 0
	knownHits := 0
	replayDir := filepath.Join(*verif, "replays")
	os.MkdirAll(replayDir, 0o755)
	var lines []string
	var oblList []map[string]interface{}
	for _, o := range obls {
		totalMs += o.Ms
		if o.Ms > 3000 && os.Getenv("VERIF_DEBUG") != "" {
			fmt.Fprintf(os.Stderr, "slow: %d ms %s %s [%s]\n", o.Ms, o.Solver, o.Name, o.Status)
		}
		entry := map[string]interface{}{"name": o.Name, "kind": o.Kind, "status": o.Status, "solver": o.Solver, "ms": o.Ms}
		if o.Src != "" {
			entry["clause"] = o.Src
		}
		if o.Retried {
			entry["retried"] = true
		}
		if o.Unconfirmed {
			entry["second_solver_confirmed"] = false
			nUnconfirmed++
		}
		if o.Pos.IsValid() {
			entry["pos"] = fmt.Sprintf("%s:%d", strings.TrimPrefix(o.Pos.Filename, *repo+"/"), o.Pos.Line)
		}
		oblList = append(oblList, entry)
		if _, isKnown := known[o.Name]; isKnown {
			if o.Status == "proved" {
				lines = append(lines, fmt.Sprintf("NOTE: known finding %s no longer reproduces (obligation proved)", o.Name))
				nObl++
				nDis++
			} else {
				knownHits++
				lines = append(lines, fmt.Sprintf("KNOWN-FINDING: property=%s %s", *prop, known[o.Name].Text))
			}
			continue
		}
		if o.Bounded != "" {
			entry["bounded"] = o.Bounded
			if o.Status == "proved" {
				nBoundedOK++
				boundedNotes[o.Fn+": "+o.Bounded] = true
				continue
			}
		} else {
			nObl++
		}
		if o.Status == "proved" {
			nDis++
			bySolver[o.Solver]++
			if len(samples) < 4 && !o.Cover {
				samples = append(samples, entry)
			}
			continue
		}
		if o.Cover && o.Status == "unknown" {
			// reachability of the preconditions neither shown nor refuted within the limit: not
			// a violation (a contradictory contract gives unsat), but reported
			entry["status"] = "cover-undecided"
			coverUndecided = append(coverUndecided, o.Fn)
			continue
		}
		violations++
		rp := filepath.Join(replayDir, sanitize(*prop+"_"+o.Name)+".json")
		rj := map[string]interface{}{"property": *prop, "obligation": o.Name, "kind": o.Kind, "status": o.Status, "clause": o.Src,
			"position": fmt.Sprintf("%s:%d", o.Pos.Filename, o.Pos.Line), "solver": o.Solver, "solver_output": o.Output, "model": o.Model}
		replayed := false
		if o.Status == "failed" && o.Model != nil {
			replayed = P.tryReplay(o, rj, *repo, *verif)
		}
		data, _ := json.MarshalIndent(rj, "", " ")
		os.WriteFile(rp, data, 0o644)
		suffix := ""
		if !replayed {
			suffix = " no-failing-input-found"
		}
		lines = append(lines, fmt.Sprintf("VIOLATION property=%s replay=%s%s", *prop, rp, suffix))
		if *verbose || true {
			fmt.Fprintf(os.Stderr, "FAILED %s [%s] %s at %s:%d\n   clause: %s\n", o.Name, o.Status, o.Solver, o.Pos.Filename, o.Pos.Line, o.Src)
		}
	}
	for _, e := range engineErrs {
		violations++
		rp := filepath.Join(replayDir, sanitize(*prop+"_engine_"+e[:min(len(e), 60)])+".json")
		data, _ := json.MarshalIndent(map[string]interface{}{"property": *prop, "obligation": "engine#" + e, "status": "engine-error"}, "", " ")
		os.WriteFile(rp, data, 0o644)
		lines = append(lines, fmt.Sprintf("VIOLATION property=%s replay=%s no-failing-input-found", *prop, rp))
		fmt.Fprintf(os.Stderr, "ENGINE cannot handle %s\n", e)
	}
	for _, b := range bindFail {
		violations++
		rp := filepath.Join(replayDir, sanitize(*prop+"_binding_"+b)+".json")
		data, _ := json.MarshalIndent(map[string]interface{}{"property": *prop, "obligation": b + "#binding", "status": "contract names a function that no longer exists"}, "", " ")
		os.WriteFile(rp, data, 0o644)
		lines = append(lines, fmt.Sprintf("VIOLATION property=%s replay=%s no-failing-input-found", *prop, rp))
		fmt.Fprintf(os.Stderr, "BINDING failed: %s\n", b)
	}
	if cfg.MinObls > 0 && nObl < cfg.MinObls && filter == nil {
		violations++
		rp := filepath.Join(replayDir, sanitize(*prop+"_vacuity")+".json")
		data, _ := json.MarshalIndent(map[string]interface{}{"property": *prop, "obligation": "vacuity#obligation-count", "status": fmt.Sprintf("only %d obligations generated, expected at least %d", nObl, cfg.MinObls)}, "", " ")
		os.WriteFile(rp, data, 0o644)
		lines = append(lines, fmt.Sprintf("VIOLATION property=%s replay=%s no-failing-input-found", *prop, rp))
	}
	// evidence
	notes := map[string]bool{}
	for _, r := range reports {
		for _, n := range r.Notes {
			notes[n] = true
		}
	}
	assumptions := append([]string{}, cfg.Assumptions...)
	assumptions = append(assumptions, baseAssumptions...)
	var ns []string
	for n := range notes {
		ns = append(ns, n)
	}
	sort.Strings(ns)
	assumptions = append(assumptions, ns...)
	if len(finalUsed) > 0 {
		var fs []string
		for n := range finalUsed {
			fs = append(fs, strings.TrimPrefix(n, "H|"))
		}
		sort.Strings(fs)
		assumptions = append(assumptions, fmt.Sprintf("write-once (final) struct fields, by an SSA scan of the defining package that is blind to reflection and unsafe: %s", strings.Join(fs, ", ")))
	}
	sort.Strings(underContract)
	if len(samples) == 0 && len(oblList) > 0 {
		samples = append(samples, oblList[0])
	}
	cov := map[string]interface{}{
		"obligations":              nObl,
		"discharged":               nDis,
		"checker_cmd":              strings.Join(os.Args, " "),
		"trusted_base":             trustedBase,
		"samples":                  samples,
		"functions_under_contract": underContract,
		"discharged_by_solver":     bySolver,
		"solver_ms_total":          totalMs,
		"known_findings_hit":       knownHits,
		"not_covered":              cfg.NotCovered,
		"functions_excluded_from_sweep": excluded,
		"bounded":                  boundedList(cfg.Bounded, boundedNotes),
		"bounded_obligations_passed_not_counted_as_proved": nBoundedOK,
		"proved_by_one_solver_only": nUnconfirmed,
		"cover_queries_undecided":  coverUndecided,
		"explanation":              cfg.Explanation,
		"obligation_list":          oblList,
		"exhaustive":               false,
	}
	ev := map[string]interface{}{
		"property_id": *prop, "tier": *tier, "seed": seed, "level": levelOf(cfg.Level), "coverage": cov,
		"assumptions": assumptions, "wall_s": time.Since(t0).Seconds(), "violations": violations,
	}
	if filter == nil && *prop != "" {
		os.MkdirAll(filepath.Join(*verif, "evidence"), 0o755)
		data, _ := json.MarshalIndent(ev, "", " ")
		os.WriteFile(filepath.Join(*verif, "evidence", *prop+".json"), data, 0o644)
	}
	for _, l := range lines {
		fmt.Println(l)
	}
	fmt.Printf("%s %s: %d obligations, %d discharged, %d violations, %d known findings, %d functions, %.1fs\n", *prop, *tier, nObl, nDis, violations, knownHits, len(underContract), time.Since(t0).Seconds())
	if violations > 0 {
		os.Exit(1)
	}
	if !*keep {
		os.RemoveAll(work)
	}
}

func boundedList(cfg []string, notes map[string]bool) []string {
	out := append([]string{}, cfg...)
	var ns []string
	for n := range notes {
		ns = append(ns, n)
	}
	sort.Strings(ns)
	return append(out, ns...)
}

func hasProp(ps []string, p string) bool {
	for _, x := range ps {
		if x == p {
			return true
		}
	}
	return false
}

func fatal(format string, args ...interface{}) {
	fmt.Fprintf(os.Stderr, "vcgen: "+format+"\n", args...)
	os.Exit(2)
}

var trustedBase = []string{
	"golang.org/x/tools v0.29.0 go/packages + go/ssa (front end, naive form)",
	"the VC generator /verif/engine (symbolic execution of go/ssa into QF_AUFBV)",
	"SMT solvers z3 5.1.0, z3 4.8.12, cvc5 1.0 (raced; thorough tier requires two to agree)",
}

var baseAssumptions = []string{
	"integers are fixed-width bit-vectors of their Go width (exact machine arithmetic, nothing idealised)",
	"slice capacities and string lengths are below 2^40; the allocation counter does not wrap",
	"termination is not proved (partial correctness and panic-freedom only)",
	"goroutine interleavings are not modelled: each function is verified as a sequential unit",
}


// ifaceMethodExists: name has the form "(Iface).Method"; the package declares an interface
// type Iface with that method.
func ifaceMethodExists(pkg *types.Package, name string) bool {
	if pkg == nil || !strings.HasPrefix(name, "(") {
		return false
	}
	i := strings.Index(name, ").")
	if i < 0 {
		return false
	}
	tn, ok := pkg.Scope().Lookup(strings.TrimPrefix(name[1:i], "*")).(*types.TypeName)
	if !ok {
		return false
	}
	it, ok := tn.Type().Underlying().(*types.Interface)
	if !ok {
		return false
	}
	for j := 0; j < it.NumMethods(); j++ {
		if it.Method(j).Name() == name[i+2:] {
			return true
		}
	}
	return false
}
