package main

// Final (write-once) struct fields.
//
// An unexported field f of a struct type T defined in the module is FINAL when no code of the
// defining package (the only code that can name it) ever writes it, or lets its address
// escape, except by storing directly into an object that the same function has just
// allocated (constructors, composite literals). For such a field no function invocation
// changes x.f of an object x that existed when the invocation started, so its heap family is
// not affected by calls whose effect is unknown ("modifies everything") and does not depend
// on the havoc epoch. Reflection and unsafe writes are not seen by this analysis (listed as
// an assumption in the evidence).
//
// Exported fields are never treated as final (packages that import the type are not
// necessarily loaded).

import (
	"go/token"
	"go/types"
	"strings"

	"golang.org/x/tools/go/ssa"
	"golang.org/x/tools/go/ssa/ssautil"
)

type finalInfo struct {
	mutable map[string]bool        // "<struct type string>#<field>" written or escaping somewhere
	structs map[string]*types.Struct // struct type string -> struct
	scanned map[*types.Package]bool
	cache   map[string]bool
}

func structKey(t types.Type) string { return types.TypeString(t, qual) }

func (P *Prog) computeFinalFields() {
	fi := &finalInfo{mutable: map[string]bool{}, structs: map[string]*types.Struct{}, scanned: map[*types.Package]bool{}, cache: map[string]bool{}}
	P.final = fi
	for fn := range ssautil.AllFunctions(P.prog) {
		if fn.Pkg != nil {
			fi.scanned[fn.Pkg.Pkg] = true
		}
		for _, b := range fn.Blocks {
			for _, ins := range b.Instrs {
				switch x := ins.(type) {
				case *ssa.FieldAddr:
					st, key := derefStruct(x.X.Type())
					if st == nil {
						continue
					}
					fi.structs[key] = st
					wr, esc := addrUse(x, map[ssa.Value]bool{})
					if esc || (wr && !freshBase(x.X)) {
						fi.mutable[key+"#"+st.Field(x.Field).Name()] = true
					}
				case *ssa.Store:
					// a store of a whole struct (or array of structs) overwrites all its fields
					if _, isFA := x.Addr.(*ssa.FieldAddr); isFA {
						continue // handled as a write to that field
					}
					pt, ok := x.Addr.Type().Underlying().(*types.Pointer)
					if !ok {
						continue
					}
					if freshBase(x.Addr) {
						continue
					}
					fi.markAll(pt.Elem(), 0)
				}
			}
		}
	}
}

// markAll marks every field of every struct contained by value in t as mutable.
func (fi *finalInfo) markAll(t types.Type, depth int) {
	if depth > 6 {
		return
	}
	switch u := t.Underlying().(type) {
	case *types.Struct:
		key := structKey(t)
		fi.structs[key] = u
		for i := 0; i < u.NumFields(); i++ {
			fi.mutable[key+"#"+u.Field(i).Name()] = true
			fi.markAll(u.Field(i).Type(), depth+1)
		}
	case *types.Array:
		fi.markAll(u.Elem(), depth+1)
	}
}

func derefStruct(t types.Type) (*types.Struct, string) {
	pt, ok := t.Underlying().(*types.Pointer)
	if !ok {
		return nil, ""
	}
	st, ok := pt.Elem().Underlying().(*types.Struct)
	if !ok {
		return nil, ""
	}
	return st, structKey(pt.Elem())
}

// addrUse classifies the uses of an address value: written (a Store through it or through a
// sub-location), escaping (any use other than load, store-through, sub-location, debug).
func addrUse(v ssa.Value, seen map[ssa.Value]bool) (written, escapes bool) {
	if seen[v] {
		return false, false
	}
	seen[v] = true
	refs := v.Referrers()
	if refs == nil {
		return false, true
	}
	for _, r := range *refs {
		switch u := r.(type) {
		case *ssa.DebugRef:
		case *ssa.UnOp:
			if u.Op != token.MUL {
				escapes = true
			}
		case *ssa.Store:
			if u.Addr == v {
				written = true
			}
			if u.Val == v {
				escapes = true
			}
		case *ssa.FieldAddr:
			if u.X == v {
				w, e := addrUse(u, seen)
				written = written || w
				escapes = escapes || e
			} else {
				escapes = true
			}
		case *ssa.IndexAddr:
			if u.X == v {
				w, e := addrUse(u, seen)
				written = written || w
				escapes = escapes || e
			} else {
				escapes = true
			}
		default:
			escapes = true
		}
	}
	return
}

// freshBase: the address designates (part of) an object allocated by this very function:
// an Alloc, a sub-location of one, or a load of a local variable whose only assignment is
// such an allocation.
func freshBase(v ssa.Value) bool {
	for i := 0; i < 16; i++ {
		switch x := v.(type) {
		case *ssa.Alloc:
			return true
		case *ssa.FieldAddr:
			v = x.X
		case *ssa.IndexAddr:
			v = x.X
		case *ssa.UnOp:
			if x.Op != token.MUL {
				return false
			}
			cell, ok := x.X.(*ssa.Alloc)
			if !ok || cell.Heap {
				return false
			}
			// the local variable must be assigned exactly once, with a fresh allocation
			var stored ssa.Value
			n := 0
			if cell.Referrers() == nil {
				return false
			}
			for _, r := range *cell.Referrers() {
				switch u := r.(type) {
				case *ssa.Store:
					if u.Addr == cell {
						n++
						stored = u.Val
					} else {
						return false
					}
				case *ssa.UnOp, *ssa.DebugRef:
				default:
					return false
				}
			}
			if n != 1 {
				return false
			}
			a, ok := stored.(*ssa.Alloc)
			return ok && a != nil
		default:
			return false
		}
	}
	return false
}

// finalFamily tells whether the heap family "H|<root key>|<leaf path>" consists of final
// fields only (every field step of the path is an unexported, never re-written field).
func (P *Prog) finalFamily(name string) bool {
	fi := P.final
	if fi == nil || !strings.HasPrefix(name, "H|") {
		return false
	}
	if v, ok := fi.cache[name]; ok {
		return v
	}
	res := func() bool {
		parts := strings.SplitN(name, "|", 3)
		if len(parts) != 3 {
			return false
		}
		st, ok := fi.structs[parts[1]]
		if !ok {
			return false
		}
		key := parts[1]
		steps := strings.Split(parts[2], ".")
		took := 0
		for _, fname := range steps {
			if st == nil {
				break // remaining components name leaves of a slice/interface/string value
			}
			var f *types.Var
			for i := 0; i < st.NumFields(); i++ {
				if st.Field(i).Name() == fname {
					f = st.Field(i)
				}
			}
			if f == nil {
				return false
			}
			if f.Exported() || f.Pkg() == nil || !fi.scanned[f.Pkg()] {
				return false
			}
			if fi.mutable[key+"#"+fname] {
				return false
			}
			took++
			switch u := f.Type().Underlying().(type) {
			case *types.Struct:
				st = u
				key = structKey(f.Type())
			case *types.Array:
				return false // array-typed fields live in the element families
			default:
				st = nil
			}
		}
		return took > 0
	}()
	fi.cache[name] = res
	return res
}
