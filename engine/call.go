package main

// Calls: builtins, contracts at call sites, inlining, external summaries, havoc fallback.

import (
	"fmt"
	"go/ast"
	"go/token"
	"go/types"
	"os"
	"sort"
	"strings"

	"golang.org/x/tools/go/ssa"
)

const maxInlineDepth = 10

func (ex *Exec) execCall(fr *Frame, st *State, c *ssa.CallCommon, pos token.Pos, rt types.Type) Value {
	if rt == nil {
		rt = c.Signature().Results()
		if rt.(*types.Tuple).Len() == 1 {
			rt = rt.(*types.Tuple).At(0).Type()
		}
	}
	var args []Value
	if c.IsInvoke() {
		recv := ex.val(fr, c.Value)
		for _, a := range c.Args {
			args = append(args, ex.val(fr, a))
		}
		name := fmt.Sprintf("(%s).%s", types.TypeString(c.Value.Type(), qual), c.Method.Name())
		// the interface value was made from a known concrete value: dispatch statically
		if iv, ok := recv.(IfV); ok && iv.Conc != nil {
			ms := ex.P.prog.MethodSets.MethodSet(iv.Conc.Type())
			for i := 0; i < ms.Len(); i++ {
				if ms.At(i).Obj().Name() == c.Method.Name() {
					if fn := ex.P.prog.MethodValue(ms.At(i)); fn != nil {
						return ex.callFunction(fr, st, fn, nil, append([]Value{iv.Conc}, args...), pos, rt)
					}
				}
			}
		}
		// `impl <interface> <concrete>`: the contract fixes the dynamic type (it must follow from
		// the precondition: that is an obligation) and the call is dispatched statically.
		if ex.contract != nil {
			if nt, ok := c.Value.Type().(*types.Named); ok {
				if conc, ok := ex.contract.Impl[nt.Obj().Name()]; ok {
					if iv, ok := recv.(IfV); ok {
						env := &SpecEnv{ex: ex, st: st, vars: map[string]Value{}, ctx: True}
						if ex.fn.Pkg != nil {
							env.pkg = ex.fn.Pkg.Pkg
						}
						ct := env.resolveTypeName(conc)
						if ct == nil {
							unsup("impl: unknown type %s", conc)
						}
						ex.check("impl", nt.Obj().Name()+"="+conc, pos, st, Eq(iv.Tag, ex.P.typeTag(ct)))
						var rv Value
						if pt, isP := ct.Underlying().(*types.Pointer); isP {
							rv = PtrV{Loc{Kind: LHeap, Root: pt.Elem(), Ref: iv.Ref, Ty: pt.Elem()}, ct}
						} else {
							unsup("impl: concrete type must be a pointer type")
						}
						ms := ex.P.prog.MethodSets.MethodSet(ct)
						for i := 0; i < ms.Len(); i++ {
							if ms.At(i).Obj().Name() == c.Method.Name() {
								fn := ex.P.prog.MethodValue(ms.At(i))
								return ex.callFunction(fr, st, fn, nil, append([]Value{rv}, args...), pos, rt)
							}
						}
						unsup("impl: %s has no method %s", conc, c.Method.Name())
					}
				}
			}
		}
		if ct := ex.P.contractByName(name); ct != nil {
			iv, _ := recv.(IfV)
			ex.check("nil", "invoke", pos, st, Neq(iv.Tag, BVi(0, 32)))
			return ex.applyContract(fr, st, ct, nil, c.Signature(), append([]Value{recv}, args...), pos, rt)
		}
		if iv, ok := recv.(IfV); ok {
			ex.check("nil", "invoke", pos, st, Neq(iv.Tag, BVi(0, 32)))
		}
		return ex.havocCall(fr, st, name, args, rt)
	}
	for _, a := range c.Args {
		args = append(args, ex.val(fr, a))
	}
	if b, ok := c.Value.(*ssa.Builtin); ok {
		return ex.builtin(fr, st, b.Name(), args, c, pos, rt)
	}
	var fn *ssa.Function
	var bind []Value
	if f := c.StaticCallee(); f != nil {
		fn = f
		if mc, ok := c.Value.(*ssa.MakeClosure); ok {
			for _, b := range mc.Bindings {
				bind = append(bind, ex.val(fr, b))
			}
		}
	} else if fv, ok := ex.val(fr, c.Value).(FnV); ok {
		if f, ok := fv.Fn.(*ssa.Function); ok {
			fn = f
			bind = fv.Bind
		}
	}
	if fn == nil {
		if v, ok := ex.pureParamCall(fr, st, c, args, rt); ok {
			return v
		}
		return ex.havocCall(fr, st, "dynamic function value", args, rt)
	}
	return ex.callFunction(fr, st, fn, bind, args, pos, rt)
}

func (ex *Exec) callFunction(fr *Frame, st *State, fn *ssa.Function, bind []Value, args []Value, pos token.Pos, rt types.Type) Value {
	name := fn.String()
	// assumed contract of a library function, specialised to the dynamic type of its first
	// (interface) argument: e.g. container/heap.Pop[*fragHeap]
	if !strings.HasPrefix(pkgPathOf(fn), ex.P.modulePath) && len(args) > 0 && !fr.isSpec {
		if iv, ok := args[0].(IfV); ok && iv.Conc != nil {
			rel := func(p *types.Package) string { return "" }
			key := pkgPathOf(fn) + ":" + fn.Name() + "[" + types.TypeString(iv.Conc.Type(), rel) + "]"
			if ct := ex.P.contracts[key]; ct != nil {
				ct.bound = true
				ex.note("library function %s is used through its ASSUMED contract %s", fn, ct.FnName)
				return ex.applyContract(fr, st, ct, fn, fn.Signature, args, pos, rt)
			}
		}
	}
	if v, ok := ex.external(fr, st, fn, args, pos, rt); ok {
		return v
	}
	ct := ex.P.contractOf(fn)
	if k, ok := ex.unrollCallsFor(fn); ok && len(fn.Blocks) > 0 && !onStack(fr, fn) {
		// the caller's contract asks for this callee to be executed, its loops unrolled
		nf := newFrame(fn, fr)
		nf.freevars = bind
		nf.unrollAll = k
		ex.noObl++
		v, out := ex.runFunction(nf, st, args)
		ex.noObl--
		if out == nil {
			st.G = False
			return zeroOrFresh(rt)
		}
		*st = *out
		if v == nil {
			return TupV{Ty: rt}
		}
		return v
	}
	if ct != nil && !ct.Inline && !(fr.isSpec) && !(ex.contract != nil && ex.contract.InlineCallees[fn.Name()]) {
		return ex.applyContract(fr, st, ct, fn, fn.Signature, args, pos, rt)
	}
	if len(fn.Blocks) > 0 && fr.depth < maxInlineDepth && !onStack(fr, fn) && ex.P.inlinable(fn, ct) {
		nf := newFrame(fn, fr)
		nf.freevars = bind
		// library code executed in place: its own panic-freedom is not ours to prove (and the
		// callbacks it makes into this module are verified separately under their preconditions)
		foreign := pkgPathOf(fn) == "container/heap" || pkgPathOf(fn) == "container/list" || pkgPathOf(fn) == "sort"
		if foreign {
			ex.noObl++
		}
		v, out := ex.runFunction(nf, st, args)
		if foreign {
			ex.noObl--
		}
		if out == nil {
			st.G = False
			return zeroOrFresh(rt)
		}
		*st = *out
		if v == nil {
			return TupV{Ty: rt}
		}
		return v
	}
	return ex.havocCall(fr, st, name, args, rt)
}

// pureParamCall models a call through a function-typed parameter that the contract declares
// `pure_param`: the results are an uninterpreted function of the arguments and nothing else
// changes. This is an assumption about the callers' closures, listed in the evidence.
func (ex *Exec) pureParamCall(fr *Frame, st *State, c *ssa.CallCommon, args []Value, rt types.Type) (Value, bool) {
	if ex.contract == nil || len(ex.contract.PureParams) == 0 || fr != ex.top {
		return nil, false
	}
	fv, ok := ex.val(fr, c.Value).(Sc)
	if !ok {
		return nil, false
	}
	for _, pn := range ex.contract.PureParams {
		pv, ok := fr.params[pn].(Sc)
		if !ok || pv.T != fv.T {
			continue
		}
		var leaves []*Term
		for _, a := range args {
			leaves = append(leaves, flatten(a)...)
		}
		ls := leavesOf(rt)
		ts := make([]*Term, len(ls))
		for i, l := range ls {
			ts[i] = App(fmt.Sprintf("param|%s.%s|%d", fnKey(fr.fn), pn, i), l.Sort, leaves...)
		}
		ex.note("calls through parameter %s of %s are modelled as an uninterpreted pure function of their arguments", pn, fr.fn)
		if len(ls) == 0 {
			return TupV{Ty: rt}, true
		}
		v := fromLeaves(rt, ts)
		st.assume(st.wf(v))
		return v, true
	}
	return nil, false
}

func (ex *Exec) unrollCallsFor(fn *ssa.Function) (int, bool) {
	if ex.contract == nil || len(ex.contract.UnrollCalls) == 0 {
		return 0, false
	}
	if k, all := ex.contract.UnrollCalls["*"]; all && strings.HasPrefix(pkgPathOf(fn), ex.P.modulePath) {
		return k, true
	}
	k, ok := ex.contract.UnrollCalls[fnKey(fn)]
	if !ok {
		k, ok = ex.contract.UnrollCalls[fn.String()]
	}
	return k, ok
}

func zeroOrFresh(rt types.Type) Value {
	if t, ok := rt.(*types.Tuple); ok && t.Len() == 0 {
		return TupV{Ty: rt}
	}
	return freshValue("dead", rt)
}

func onStack(fr *Frame, fn *ssa.Function) bool {
	for f := fr; f != nil; f = f.parent {
		if f.fn == fn {
			return true
		}
	}
	return false
}

// havocCall models a call about which nothing is known: every heap family and every local
// whose address is passed may change; the result is unconstrained.
func (ex *Exec) havocCall(fr *Frame, st *State, name string, args []Value, rt types.Type) Value {
	ex.note("call to %s abstracted: heap havocked, result unconstrained", name)
	ex.havocEverything(st)
	for _, a := range args {
		ex.havocPointees(st, a)
	}
	return ex.freshResult(st, rt)
}

func (ex *Exec) havocEverything(st *State) {
	st.logWrite(&WriteRec{Kind: "everything"})
	// ghost state is specification-only: it changes only where a contract names it
	keep := map[string]*Term{}
	for n, t := range st.Heap {
		if strings.HasPrefix(n, "G|ghost") {
			keep[n] = t
		}
	}
	st.Heap = keep
	st.Epoch = Fresh("epoch", BVSort(32))
	st.advanceAlloc("alloc")
}

// butKey: the key under which a type named in an everything_but clause is recorded (the
// struct family key, or the map family for a map type).
func butKey(t types.Type) string {
	if mt, ok := t.Underlying().(*types.Map); ok {
		return mapFam(mt)
	}
	return typeKey(t)
}

// butTypes: struct types named in everything_but clauses, by family key.
var butTypes = map[string]types.Type{}

// havocEverythingBut: everything may change except the fields of existing objects of the
// struct types with the given family keys (and ghost state).
func (ex *Exec) havocEverythingBut(st *State, keys []string) {
	sort.Strings(keys)
	keep := map[string]*Term{}
	for _, key := range keys {
		t := butTypes[key]
		if mt, ok := t.Underlying().(*types.Map); ok {
			// a map type: the contents of every existing map of that type are preserved
			fam := mapFam(mt)
			for n, h := range st.Heap {
				if strings.HasPrefix(n, fam+"|") {
					keep[n] = h
				}
			}
			ks := keySort(mt.Key())
			keep[fam+"|present"] = st.heap(fam+"|present", ArraySort(RefSort, ArraySort(ks, BoolSort)))
			keep[fam+"|card"] = st.heap(fam+"|card", ArraySort(RefSort, IntSort))
			for _, lf := range leavesOf(mt.Elem()) {
				keep[fam+"|v|"+lf.Name] = st.heap(fam+"|v|"+lf.Name, ArraySort(RefSort, ArraySort(ks, lf.Sort)))
			}
			continue
		}
		for _, lf := range leavesOf(t) {
			if lf.ElemKey != "" {
				continue // array-typed fields live in the element families: havocked
			}
			n := "H|" + key + "|" + lf.Name
			keep[n] = st.heap(n, ArraySort(RefSort, lf.Sort))
		}
		// arrays of T and of *T (backing arrays of []T / []*T, array-typed fields) belong to
		// the data structures built from T: preserved as well
		for _, et := range []types.Type{t, types.NewPointer(t)} {
			names, sorts := elemFamilies(et)
			for i, n := range names {
				keep[n] = st.heap(n, sorts[i])
			}
		}
	}
	for n, t := range st.Heap {
		if strings.HasPrefix(n, "G|ghost") {
			keep[n] = t
		}
	}
	st.logWrite(&WriteRec{Kind: "everything_but", Key: strings.Join(keys, ",")})
	st.Heap = keep
	st.Epoch = Fresh("epoch", BVSort(32))
	st.advanceAlloc("alloc")
}

// advanceAlloc replaces the allocation counter by an unknown later value (objects may have
// been allocated by code that was not executed symbolically). Allocated references stay
// below 2^24: the range above is used for embedded array fields.
func (s *State) advanceAlloc(name string) {
	na := Fresh(name, RefSort)
	s.assume(ULe(s.Alloc, na))
	s.assume(ULe(na, BVu(0x00fffff0, 32)))
	s.Alloc = na
}

func (ex *Exec) havocPointees(st *State, a Value) {
	switch x := a.(type) {
	case PtrV:
		if x.L.Kind == LCell {
			cur := st.load(x.L)
			if nv, ok := tryHavoc("ext", cur); ok {
				st.store(x.L, nv)
				st.assume(st.wf(nv))
			}
		}
	case FnV:
		for _, b := range x.Bind {
			ex.havocPointees(st, b)
		}
	}
}

func (ex *Exec) freshResult(st *State, rt types.Type) Value {
	if t, ok := rt.(*types.Tuple); ok && t.Len() == 0 {
		return TupV{Ty: rt}
	}
	v := freshValue("ret", rt)
	st.assume(st.wf(v))
	return v
}

// ---------------------------------------------------------------------------
// external summaries

var noEffectPkgs = []string{"log", "fmt", "time", "math/rand", "crypto/", "runtime", "os", "strings", "strconv", "errors",
	"sort", "math", "hash/", "io", "bufio", "net", "syscall", "unicode", "encoding/base64", "encoding/hex", "regexp", "reflect", "flag"}

func pkgPathOf(fn *ssa.Function) string {
	if fn.Pkg != nil {
		return fn.Pkg.Pkg.Path()
	}
	if fn.Object() != nil && fn.Object().Pkg() != nil {
		return fn.Object().Pkg().Path()
	}
	if p := fn.Parent(); p != nil {
		return pkgPathOf(p)
	}
	return ""
}

func (ex *Exec) external(fr *Frame, st *State, fn *ssa.Function, args []Value, pos token.Pos, rt types.Type) (Value, bool) {
	pp := pkgPathOf(fn)
	name := fn.String()
	if strings.HasPrefix(pp, ex.P.modulePath) {
		return nil, false
	}
	switch pp {
	case "sync":
		// locks: ghost discipline is not tracked in this version; no effect on modelled state
		ex.note("sync primitive %s: no effect on modelled state (lock discipline not checked)", name)
		return ex.freshResult(st, rt), true
	case "sync/atomic":
		return ex.atomic(fr, st, fn, args, pos, rt), true
	case "encoding/binary":
		return nil, false // inlined from source
	case "container/heap":
		return nil, false
	}
	for _, p := range noEffectPkgs {
		if pp == p || (strings.HasSuffix(p, "/") && strings.HasPrefix(pp, p)) || strings.HasPrefix(pp, p+"/") {
			ex.note("external %s: trusted to have no effect on modelled state; result unconstrained", name)
			for _, a := range args {
				ex.havocPointees(st, a)
			}
			r := ex.freshResult(st, rt)
			switch name {
			case "errors.New", "fmt.Errorf":
				// documented: these constructors never return nil
				if iv, ok := r.(IfV); ok {
					st.assume(Neq(iv.Tag, BVi(0, 32)))
				}
			case "math/rand.Int31n", "math/rand.Int63n", "math/rand.Intn":
				// documented: returns a value in [0, n); panics if n <= 0
				if n, ok := args[0].(Sc); ok {
					w := n.T.Sort.W
					ex.check("panic", "rand-nonpositive", pos, st, SLt(BVi(0, w), n.T))
					rv := r.(Sc)
					st.assume(And(SLe(BVi(0, w), rv.T), SLt(rv.T, n.T)))
				}
			case "math/rand.Int31", "math/rand.Int63", "math/rand.Int":
				rv := r.(Sc)
				st.assume(SLe(BVi(0, rv.T.Sort.W), rv.T))
			}
			return r, true
		}
	}
	if len(fn.Blocks) == 0 {
		return ex.havocCall(fr, st, name, args, rt), true
	}
	return nil, false
}

func (ex *Exec) atomic(fr *Frame, st *State, fn *ssa.Function, args []Value, pos token.Pos, rt types.Type) Value {
	n := fn.Name()
	p, ok := args[0].(PtrV)
	if !ok {
		return ex.havocCall(fr, st, fn.String(), args, rt)
	}
	ex.nilCheck(fr, st, p, pos)
	switch {
	case strings.HasPrefix(n, "Add"):
		cur := st.load(p.L).(Sc)
		nv := Sc{Add(cur.T, args[1].(Sc).T), cur.Ty}
		st.store(p.L, nv)
		return nv
	case strings.HasPrefix(n, "Load"):
		return st.load(p.L)
	case strings.HasPrefix(n, "Store"):
		st.store(p.L, retype(args[1], p.L.Ty))
		return TupV{Ty: rt}
	case strings.HasPrefix(n, "Swap"):
		cur := st.load(p.L)
		st.store(p.L, retype(args[1], p.L.Ty))
		return cur
	case strings.HasPrefix(n, "CompareAndSwap"):
		cur := st.load(p.L)
		eq := valuesEqual(cur, retype(args[1], p.L.Ty))
		st.store(p.L, iteValue(eq, retype(args[2], p.L.Ty), cur))
		return Sc{eq, tBool}
	}
	return ex.havocCall(fr, st, fn.String(), args, rt)
}

// ---------------------------------------------------------------------------
// builtins

func (ex *Exec) builtin(fr *Frame, st *State, name string, args []Value, c *ssa.CallCommon, pos token.Pos, rt types.Type) Value {
	switch name {
	case "len":
		switch b := args[0].(type) {
		case SlV:
			return Sc{b.Len, rt}
		case StrV:
			return Sc{strLen(b.S), rt}
		case Sc:
			if mt, ok := b.Ty.Underlying().(*types.Map); ok {
				card := ex.mapCard(st, mt, b.T)
				st.assume(SLe(BVi(0, 64), card))
				return Sc{Ite(Eq(b.T, BVi(0, 32)), BVi(0, 64), card), rt}
			}
			if _, ok := b.Ty.Underlying().(*types.Chan); ok {
				v := Fresh("chanlen", IntSort)
				st.assume(SLe(BVi(0, 64), v))
				return Sc{v, rt}
			}
		case PtrV:
			if at, ok := b.L.Ty.Underlying().(*types.Array); ok {
				return Sc{BVi(at.Len(), 64), rt}
			}
		case ArrV:
			return Sc{BVi(b.Ty.Underlying().(*types.Array).Len(), 64), rt}
		}
		unsup("len of %T", args[0])
	case "cap":
		switch b := args[0].(type) {
		case SlV:
			return Sc{b.Cap, rt}
		case Sc:
			v := Fresh("chancap", IntSort)
			st.assume(SLe(BVi(0, 64), v))
			return Sc{v, rt}
		}
		unsup("cap of %T", args[0])
	case "append":
		return ex.appendBuiltin(st, args, rt, pos)
	case "copy":
		return ex.copyBuiltin(st, args, rt)
	case "delete":
		m := args[0].(Sc)
		mt := m.Ty.Underlying().(*types.Map)
		ex.mapDelete(st, mt, m.T, keyTerm(args[1]))
		return TupV{Ty: rt}
	case "print", "println":
		return TupV{Ty: rt}
	case "close":
		ex.note("close of channel: abstracted")
		return TupV{Ty: rt}
	case "recover":
		return zeroValue(rt)
	case "min", "max":
		a, b := args[0].(Sc), args[1].(Sc)
		_, signed, _ := intInfo(a.Ty)
		var lt *Term
		if signed {
			lt = SLt(a.T, b.T)
		} else {
			lt = ULt(a.T, b.T)
		}
		if name == "min" {
			return Sc{Ite(lt, a.T, b.T), rt}
		}
		return Sc{Ite(lt, b.T, a.T), rt}
	case "ssa:wrapnilchk":
		if p, ok := args[0].(PtrV); ok {
			ex.nilCheck(fr, st, p, pos)
		}
		return args[0]
	case "ssa:deferstack":
		return zeroValue(rt)
	}
	unsup("builtin %s", name)
	return nil
}

// elemRows returns, for each leaf of the element type of slice type t, the heap family
// name and sort.
func elemFamilies(et types.Type) (names []string, sorts []*Sort) {
	for _, lf := range leavesOf(et) {
		names = append(names, "E|"+typeKey(et)+"|"+lf.Name)
		sorts = append(sorts, ArraySort(RefSort, ArraySort(IntSort, lf.Sort)))
	}
	return
}

// copyRange writes n elements from (srcRow, soff) into dst array dr at doff, for every leaf.
// It introduces fresh rows constrained by lazy foralls.
func (ex *Exec) copyRange(st *State, et types.Type, dr, doff *Term, srcRows []*Term, soff, n *Term, desc string) {
	st.logWrite(&WriteRec{Kind: "range", Key: typeKey(et), Ref: dr, Idx: doff, N: n, Desc: desc})
	names, sorts := elemFamilies(et)
	z := BVi(0, 64)
	for i, name := range names {
		h := st.heap(name, sorts[i])
		oldRow := Select(h, dr)
		// small constant n: explicit stores
		if n.IsConst() && n.Val.IsInt64() && n.Val.Int64() <= 20 {
			row := oldRow
			for k := int64(0); k < n.Val.Int64(); k++ {
				kk := BVi(k, 64)
				row = Store(row, Add(doff, kk), Select(srcRows[i], Add(soff, kk)))
			}
			st.setHeap(name, Store(h, dr, row))
			continue
		}
		newRow := Fresh("copy", sorts[i].Elem)
		src := srcRows[i]
		ex.addLazy(&LazyForall{Guard: True, Sort: IntSort, Desc: desc, Body: func(j *Term) *Term {
			in := And(SLe(doff, j), SLt(j, Add(doff, n)))
			return And(
				Implies(in, Eq(Select(newRow, j), Select(src, Add(soff, Sub(j, doff))))),
				Implies(Not(in), Eq(Select(newRow, j), Select(oldRow, j))))
		}})
		_ = z
		st.setHeap(name, Store(h, dr, newRow))
	}
}

func (ex *Exec) srcRows(st *State, et types.Type, arr *Term) []*Term {
	names, sorts := elemFamilies(et)
	rows := make([]*Term, len(names))
	for i, n := range names {
		rows[i] = Select(st.heap(n, sorts[i]), arr)
	}
	return rows
}

func (ex *Exec) strRow(s *Term) *Term {
	// a view of string bytes as an array: uninterpreted, linked to strbyte lazily
	row := App("strrow", ArraySort(IntSort, BVSort(8)), s)
	return row
}

func (ex *Exec) copyBuiltin(st *State, args []Value, rt types.Type) Value {
	dst := args[0].(SlV)
	et := dst.Ty.Underlying().(*types.Slice).Elem()
	var n *Term
	switch src := args[1].(type) {
	case SlV:
		n = Ite(SLt(dst.Len, src.Len), dst.Len, src.Len)
		ex.copyRange(st, et, dst.Arr, dst.Off, ex.srcRows(st, et, src.Arr), src.Off, n, "copy")
	case StrV:
		sl := strLen(src.S)
		n = Ite(SLt(dst.Len, sl), dst.Len, sl)
		// bytes of the string: element k is strbyte(s,k)
		name := "E|uint8|"
		srt := ArraySort(RefSort, ArraySort(IntSort, BVSort(8)))
		st.logWrite(&WriteRec{Kind: "range", Key: "uint8", Ref: dst.Arr, Idx: dst.Off, N: n, Desc: "copy from string"})
		h := st.heap(name, srt)
		oldRow := Select(h, dst.Arr)
		if dst.Len.IsConst() && dst.Len.Val.Int64() <= 20 {
			row := oldRow
			for k := int64(0); k < dst.Len.Val.Int64(); k++ {
				kk := BVi(k, 64)
				row = Store(row, Add(dst.Off, kk), Ite(SLt(kk, n), strByte(src.S, kk), Select(oldRow, Add(dst.Off, kk))))
			}
			st.setHeap(name, Store(h, dst.Arr, row))
		} else {
			newRow := Fresh("copystr", srt.Elem)
			s, doff := src.S, dst.Off
			ex.addLazy(&LazyForall{Guard: True, Sort: IntSort, Desc: "copy from string", Body: func(j *Term) *Term {
				in := And(SLe(doff, j), SLt(j, Add(doff, n)))
				return And(
					Implies(in, Eq(Select(newRow, j), strByte(s, Sub(j, doff)))),
					Implies(Not(in), Eq(Select(newRow, j), Select(oldRow, j))))
			}})
			st.setHeap(name, Store(h, dst.Arr, newRow))
		}
	default:
		unsup("copy from %T", args[1])
	}
	return Sc{n, rt}
}

func (ex *Exec) appendBuiltin(st *State, args []Value, rt types.Type, pos token.Pos) Value {
	base := args[0].(SlV)
	et := rt.Underlying().(*types.Slice).Elem()
	var n *Term
	var srcRows []*Term
	var soff *Term
	switch src := args[1].(type) {
	case SlV:
		n = src.Len
		srcRows = ex.srcRows(st, et, src.Arr)
		soff = src.Off
	case StrV:
		n = strLen(src.S)
		srcRows = []*Term{ex.strRow(src.S)}
		soff = BVi(0, 64)
		s := src.S
		row := srcRows[0]
		ex.addLazy(&LazyForall{Guard: True, Sort: IntSort, Desc: "append string bytes", Body: func(k *Term) *Term {
			return Eq(Select(row, k), strByte(s, k))
		}})
	default:
		unsup("append of %T", args[1])
	}
	newLen := Add(base.Len, n)
	fits := SLe(newLen, base.Cap)
	// in-place branch
	inPlace := st.clone()
	inPlace.assume(fits)
	ex.copyRange(inPlace, et, base.Arr, Add(base.Off, base.Len), srcRows, soff, n, "append in place")
	resA := SlV{base.Arr, base.Off, newLen, base.Cap, rt}
	// reallocation branch
	grow := st.clone()
	grow.assume(Not(fits))
	r := grow.allocRef()
	ncap := Fresh("appendcap", IntSort)
	grow.assume(And(SLe(newLen, ncap), SLe(ncap, maxLen)))
	names, sorts := elemFamilies(et)
	oldRows := ex.srcRows(grow, et, base.Arr)
	for i, name := range names {
		// fresh array: first the old contents
		h := grow.heap(name, sorts[i])
		grow.setHeap(name, Store(h, r, Fresh("grown", sorts[i].Elem)))
	}
	ex.copyRange(grow, et, r, BVi(0, 64), oldRows, base.Off, base.Len, "append: old contents")
	ex.copyRange(grow, et, r, base.Len, srcRows, soff, n, "append: new contents")
	resB := SlV{r, BVi(0, 64), newLen, ncap, rt}
	if fits == True {
		*st = *inPlace
		return resA
	}
	m := mergeStates(inPlace, grow)
	res := iteValue(fits, resA, resB)
	*st = *m
	return res
}

// ---------------------------------------------------------------------------
// contracts at call sites

func (ex *Exec) calleeFrame(fn *ssa.Function, sig *types.Signature, args []Value, pkg *types.Package) *Frame {
	fr := &Frame{regs: map[ssa.Value]Value{}, named: map[string][]*Cell{}, params: map[string]Value{}, cells: map[*ssa.Alloc]*Cell{}, phiCells: map[*ssa.Phi]*Cell{}}
	fr.fn = fn
	i := 0
	if sig.Recv() != nil {
		n := sig.Recv().Name()
		if n == "" || n == "_" {
			n = "recv"
		}
		fr.params[n] = args[0]
		fr.params["recv"] = args[0]
		i = 1
	}
	for j := 0; j < sig.Params().Len(); j++ {
		if i+j < len(args) {
			fr.params[sig.Params().At(j).Name()] = args[i+j]
		}
	}
	return fr
}

func (ex *Exec) bindResults(env *SpecEnv, sig *types.Signature, res Value) {
	if res == nil {
		return
	}
	env.vars["result"] = res
	rs := sig.Results()
	if tv, ok := res.(TupV); ok {
		for i, e := range tv.E {
			env.vars[fmt.Sprintf("result%d", i+1)] = e
			if n := rs.At(i).Name(); n != "" && n != "_" {
				env.vars[n] = e
			}
		}
	} else if rs.Len() == 1 {
		if n := rs.At(0).Name(); n != "" && n != "_" {
			env.vars[n] = res
		}
	}
}

func (ex *Exec) applyContract(fr *Frame, st *State, ct *Contract, fn *ssa.Function, sig *types.Signature, args []Value, pos token.Pos, rt types.Type) Value {
	var cf *Frame
	var pkg *types.Package
	if fn != nil {
		cf = ex.calleeFrame(fn, fn.Signature, args, nil)
		if fn.Pkg != nil {
			pkg = fn.Pkg.Pkg
		}
		if ct.External {
			pkg = ex.P.pkgByPath(ct.Pkg)
		}
	} else {
		// interface method: receiver passed as args[0]
		cf = &Frame{regs: map[ssa.Value]Value{}, named: map[string][]*Cell{}, params: map[string]Value{}}
		cf.params["recv"] = args[0]
		for j := 0; j < sig.Params().Len(); j++ {
			cf.params[sig.Params().At(j).Name()] = args[1+j]
		}
		pkg = ex.P.pkgByPath(ct.Pkg)
	}
	mkEnv := func(s, old *State, assume bool) *SpecEnv {
		env := &SpecEnv{ex: ex, fr: cf, st: s, old: old, vars: map[string]Value{}, assume: assume, ctx: True, pkg: pkg}
		env.useLocals = false
		if cf.fn == nil {
			env.fr = &Frame{fn: fr.fn, params: cf.params, named: map[string][]*Cell{}}
			env.fr.fn = fr.fn
		}
		return env
	}
	// every contract relied upon at a call site is reported in the evidence
	switch {
	case ct.Trusted:
		ex.note("ASSUMED contract of %s:%s applied at call sites (trusted: its body is not verified)", ct.Pkg, ct.FnName)
	case ct.NoBody:
		ex.note("ASSUMED contract of interface method %s:%s applied at call sites", ct.Pkg, ct.FnName)
	case ct.External:
		ex.note("ASSUMED contract of library function %s applied at call sites", ct.FnName)
	default:
		ex.note("contract of %s:%s applied at call sites (proved where that function is under a claimed property: %s)", ct.Pkg, ct.FnName, strings.Join(ct.Props, " "))
	}
	// receiver non-nil for pointer receivers
	if fn != nil && fn.Signature.Recv() != nil {
		if p, ok := args[0].(PtrV); ok {
			ex.nilCheck(fr, st, p, pos)
		}
	}
	for i, rq := range ct.Requires {
		env := mkEnv(st, nil, false)
		g := env.evalBool(rq.Expr)
		ex.addOblSk("pre", fmt.Sprintf("%s.%d", ct.FnName, i+1), pos, st, g, env.skolems, rq.Src)
		st.assume(g)
	}
	// extra call-site obligations of the function under verification (at_call clauses)
	if ex.contract != nil && fr.fn == ex.fn {
		cname := ct.FnName
		if fn != nil {
			cname = fn.Name()
		} else if i := strings.LastIndex(cname, ")."); i >= 0 {
			cname = cname[i+2:] // interface method: "(Iface).Method"
		}
		for i, rq := range ex.contract.AtCall[cname] {
			if !rq.applies() {
				continue
			}
			env := mkEnv(st, ex.entry, false) // old() = the caller's entry state
			// the callee's parameters by name, and behind them the caller's own parameters
			// (callee parameters shadow them), and the caller's named locals that are live
			merged := map[string]Value{}
			for k, v := range fr.params {
				merged[k] = v
			}
			for k, v := range cf.params {
				merged[k] = v
				env.vars[k] = v
			}
			env.fr = &Frame{fn: fr.fn, params: merged, named: fr.named, namedHeap: fr.namedHeap}
			ex.callerParams = fr.params
			env.useLocals = true
			if fr.fn.Pkg != nil {
				env.pkg = fr.fn.Pkg.Pkg
			}
			g := env.evalBool(rq.Expr)
			ex.addOblSk("atcall", fmt.Sprintf("%s.%d", cname, i+1), pos, st, g, env.skolems, rq.Src)
		}
	}
	pre := st.clone()
	// havoc the frame
	touched := false
	var hlog []havocRec
	savedLog := ex.havocLog
	ex.havocLog = &hlog
	defer func() { ex.havocLog = savedLog }()
	for _, m := range ex.P.expandModsets(ct.Modifies, 0) {
		env := mkEnv(pre, nil, true)
		ex.havocSpecLoc(env, st, m.Expr)
		touched = true
	}
	_ = touched
	// the callee may have allocated objects that its results or the modified locations reference
	st.advanceAlloc("alloc")
	res := ex.freshResult(st, rt)
	{
		if _, isT := res.(TupV); !isT || len(res.(TupV).E) > 0 {
			st.assume(st.wf(res))
		}
	}
	// ghost assignments of the callee: its ghost variables take the stated values
	if len(ct.GhostSets) > 0 {
		var vals []*Term
		for _, gs := range ct.GhostSets {
			env := mkEnv(st, pre, true)
			ex.bindResults(env, sig, res)
			vals = append(vals, env.eval(gs.Expr).(Sc).T)
		}
		for i, gs := range ct.GhostSets {
			st.logWrite(&WriteRec{Kind: "global", Key: "ghost." + gs.Name})
			st.setHeap("G|ghost."+gs.Name+"|", vals[i])
		}
	}
	if ct.Pure {
		var argLeaves []*Term
		for _, a := range args {
			argLeaves = append(argLeaves, flatten(a)...)
		}
		for i, leaf := range flatten(res) {
			st.assume(Eq(leaf, App(fmt.Sprintf("pure|%s:%s|%d", ct.Pkg, ct.FnName, i), leaf.Sort, argLeaves...)))
		}
	}
	for _, en := range ct.Ensures {
		env := mkEnv(st, pre, true)
		ex.bindResults(env, sig, res)
		t := env.evalBool(en.Expr)
		st.assume(t)
		// a postcondition that fixes the new value of a havocked scalar location by an equation:
		// store that value itself (keeps later index arithmetic syntactically transparent)
		for _, cj := range conjuncts(t) {
			if cj.Op != "=" {
				continue
			}
			for i := range hlog {
				h := hlog[i]
				var other *Term
				if cj.Args[0] == h.v.T {
					other = cj.Args[1]
				} else if cj.Args[1] == h.v.T {
					other = cj.Args[0]
				}
				if other == nil || other.Sort != h.v.T.Sort || termContains(other, h.v.T) {
					continue
				}
				cur, ok := st.load(h.l).(Sc)
				if ok && cur.T == h.v.T {
					saved := st.Writes
					st.store(h.l, Sc{other, h.v.Ty})
					st.Writes = saved // the write was logged when the location was havocked
				}
			}
		}
	}
	return res
}

// famPrefixArg: the optional field path (second argument, a string literal) of structfamily.
func famPrefixArg(call *ast.CallExpr) string {
	if len(call.Args) < 2 {
		return ""
	}
	lit, ok := call.Args[1].(*ast.BasicLit)
	if !ok || lit.Kind != token.STRING {
		specErr("structfamily(T, \"field.path\")")
	}
	return strings.Trim(lit.Value, "\"")
}

// underPrefix: leaf name (a dotted field path) is at or below prefix ("" = everything).
func underPrefix(leaf, prefix string) bool {
	return prefix == "" || leaf == prefix || strings.HasPrefix(leaf, prefix+".")
}

// havocSpecLoc havocs the location(s) denoted by a modifies expression.
func (ex *Exec) havocSpecLoc(env *SpecEnv, st *State, e ast.Expr) {
	if call, ok := e.(*ast.CallExpr); ok {
		if id, ok := call.Fun.(*ast.Ident); ok {
			switch id.Name {
			case "everything":
				ex.havocEverything(st)
				return
			case "everything_but":
				// everything may change except the fields of existing objects of the listed struct types
				var keys []string
				for _, a := range call.Args {
					t, absent := env.resolveTypeArg(a)
					if absent {
						continue
					}
					key := butKey(t)
					keys = append(keys, key)
					butTypes[key] = t
				}
				ex.havocEverythingBut(st, keys)
				return
			case "elems", "elemscap":
				sl, ok := env.eval(call.Args[0]).(SlV)
				if !ok {
					specErr("elems() of non-slice")
				}
				if id.Name == "elemscap" {
					// the whole capacity (an append may write beyond the length)
					sl.Len = sl.Cap
				}
				st.logWrite(&WriteRec{Kind: "range", Key: typeKey(sl.Ty.Underlying().(*types.Slice).Elem()), Ref: sl.Arr, Idx: sl.Off, N: sl.Len, Desc: "callee modifies elems"})
				et := sl.Ty.Underlying().(*types.Slice).Elem()
				names, sorts := elemFamilies(et)
				for i, name := range names {
					h := st.heap(name, sorts[i])
					oldRow := Select(h, sl.Arr)
					newRow := Fresh("elems", sorts[i].Elem)
					off, ln := sl.Off, sl.Len
					ex.addLazy(&LazyForall{Guard: True, Sort: IntSort, Desc: "frame of elems()", Body: func(j *Term) *Term {
						in := And(SLe(off, j), SLt(j, Add(off, ln)))
						return Implies(Not(in), Eq(Select(newRow, j), Select(oldRow, j)))
					}})
					st.setHeap(name, Store(h, sl.Arr, newRow))
				}
				return
			case "entries":
				m := env.eval(call.Args[0]).(Sc)
				mt := m.Ty.Underlying().(*types.Map)
				st.logWrite(&WriteRec{Kind: "map", Key: mapFam(mt), Ref: m.T, Desc: "callee modifies entries"})
				ex.havocMap(st, mt, m.T)
				return
			case "ghost", "ghostarr":
				id, ok := call.Args[0].(*ast.Ident)
				if !ok {
					specErr("%s(name)", id.Name)
				}
				st.logWrite(&WriteRec{Kind: "global", Key: call.Fun.(*ast.Ident).Name + "." + id.Name})
				if call.Fun.(*ast.Ident).Name == "ghost" {
					n := "G|ghost." + id.Name + "|"
					st.setHeap(n, Fresh("ghost."+id.Name, IntSort))
				} else {
					n := "G|ghostarr." + id.Name + "|"
					st.setHeap(n, Fresh("ghostarr."+id.Name, ArraySort(IntSort, IntSort)))
				}
				return
			case "elemfamily":
				// elemfamily(T): any element of any backing array with element type T may change
				t := env.resolveType(call.Args[0])
				if t == nil {
					specErr("elemfamily: unknown type %s", exprStr(call.Args[0]))
				}
				st.logWrite(&WriteRec{Kind: "elemfamily", Key: typeKey(t)})
				names, sorts := elemFamilies(t)
				for i, n := range names {
					st.setHeap(n, Fresh("elemfam", sorts[i]))
				}
				return
			case "structfamily":
				// structfamily(T): any field of any object of struct type T may change;
				// structfamily(T, "path"): only the fields at or below that field path
				t, absent := env.resolveTypeArg(call.Args[0])
				if absent {
					return
				}
				key := typeKey(t)
				pfx := famPrefixArg(call)
				st.logWrite(&WriteRec{Kind: "structfamily", Key: key, Prefix: pfx})
				loggedElem := map[string]bool{}
				for _, lf := range leavesOf(t) {
					if !underPrefix(lf.Name, pfx) {
						continue
					}
					if lf.ElemKey != "" {
						// array-typed fields live in the element family of their element type:
						// that whole family is havocked (an over-approximation)
						if !loggedElem[lf.ElemKey] {
							loggedElem[lf.ElemKey] = true
							st.logWrite(&WriteRec{Kind: "elemfamily", Key: lf.ElemKey})
						}
						st.setHeap("E|"+lf.ElemKey+"|"+lf.ElemLeaf, Fresh("structfam", ArraySort(RefSort, lf.Sort)))
						continue
					}
					if finalProg != nil && finalProg.finalFamily("H|"+key+"|"+lf.Name) {
						continue // final fields of existing objects cannot change
					}
					st.setHeap("H|"+key+"|"+lf.Name, Fresh("structfam", ArraySort(RefSort, lf.Sort)))
				}
				return
			case "mapfamily":
				// mapfamily(T): every map of the named map type may change
				t := env.resolveType(call.Args[0])
				if t == nil {
					specErr("mapfamily: unknown type %s", exprStr(call.Args[0]))
				}
				mt, ok := t.Underlying().(*types.Map)
				if !ok {
					specErr("mapfamily: %s is not a map type", t)
				}
				fam := mapFam(mt)
				st.logWrite(&WriteRec{Kind: "mapfamily", Key: fam})
				for n, srt := range heapSorts {
					if strings.HasPrefix(n, fam+"|") {
						st.setHeap(n, Fresh("mapfam", srt))
					}
				}
				// families not touched yet: make sure the standard ones exist
				ks := keySort(mt.Key())
				st.setHeap(fam+"|present", Fresh("mapfam", ArraySort(RefSort, ArraySort(ks, BoolSort))))
				st.setHeap(fam+"|card", Fresh("mapfam", ArraySort(RefSort, IntSort)))
				for _, lf := range leavesOf(mt.Elem()) {
					st.setHeap(fam+"|v|"+lf.Name, Fresh("mapfam", ArraySort(RefSort, ArraySort(ks, lf.Sort))))
				}
				return
			}
		}
	}
	l := env.loc(e)
	// (a location inside a local of the caller is possible: the callee got its address)
	nv := freshValue("mod", l.Ty)
	st.store(l, nv)
	st.assume(st.wf(nv))
	if sc, ok := nv.(Sc); ok && ex.havocLog != nil {
		*ex.havocLog = append(*ex.havocLog, havocRec{l, sc})
	}
}

// havocRec: a scalar location havocked on behalf of a callee and the fresh value put there.
type havocRec struct {
	l Loc
	v Sc
}

func termContains(t, x *Term) bool {
	seen := map[int]bool{}
	var walk func(t *Term) bool
	walk = func(t *Term) bool {
		if t == x {
			return true
		}
		if seen[t.id] {
			return false
		}
		seen[t.id] = true
		for _, a := range t.Args {
			if walk(a) {
				return true
			}
		}
		return false
	}
	return walk(t)
}

func (ex *Exec) havocMap(st *State, mt *types.Map, r *Term) {
	ks := keySort(mt.Key())
	fam := mapFam(mt)
	pn := fam + "|present"
	ph := st.heap(pn, ArraySort(RefSort, ArraySort(ks, BoolSort)))
	st.setHeap(pn, Store(ph, r, Fresh("mapmod", ArraySort(ks, BoolSort))))
	cn := fam + "|card"
	ch := st.heap(cn, ArraySort(RefSort, IntSort))
	nc := Fresh("mapcard", IntSort)
	st.assume(SLe(BVi(0, 64), nc))
	st.setHeap(cn, Store(ch, r, nc))
	for _, lf := range leavesOf(mt.Elem()) {
		n := fam + "|v|" + lf.Name
		h := st.heap(n, ArraySort(RefSort, ArraySort(ks, lf.Sort)))
		st.setHeap(n, Store(h, r, Fresh("mapval", ArraySort(ks, lf.Sort))))
	}
}

// mapLookupPure reads m[k] in a specification (zero value if absent).
func (ex *Exec) mapLookupPure(st *State, mt *types.Map, r, k *Term) Value {
	pres := And(Neq(r, BVi(0, 32)), ex.mapPresent(st, mt, r, k))
	v := ex.mapGet(st, mt, r, k)
	// what is stored in a map of a Go heap is well-formed (references designate allocated objects)
	if os.Getenv("VERIF_MAPWF") != "" {
		st.assume(Implies(pres, st.wf(v)))
	}
	return iteValue(pres, v, zeroValue(mt.Elem()))
}
