package main

// Evaluation of contract expressions (Go expression syntax plus special forms)
// over symbolic states.

import (
	"fmt"
	"go/ast"
	"go/constant"
	"go/token"
	"go/types"
	"math/big"
	"os"
	"runtime/debug"
	"strconv"
	"strings"

	"golang.org/x/tools/go/ssa"
)

type SpecEnv struct {
	ex      *Exec
	fr      *Frame // frame whose locals/params are visible
	st      *State // current state
	old     *State // state for old()
	vars    map[string]Value
	assume  bool // true: formula is being assumed (foralls become lazy), false: proved (skolemised)
	neg     bool // polarity flipped
	renameDepth int
	ambig   bool // inside an operand of ==, !=, iff or an ite condition: no definite polarity
	ctx     *Term
	skolems []*Term
	pkg     *types.Package
	useLocals bool
	macroDepth int
}

func (ex *Exec) specEnv(fr *Frame, st, old *State, assume bool) *SpecEnv {
	ex.goalLazy = nil
	env := &SpecEnv{ex: ex, fr: fr, st: st, old: old, vars: map[string]Value{}, assume: assume, ctx: True, useLocals: true}
	if fr != nil && fr.fn.Pkg != nil {
		env.pkg = fr.fn.Pkg.Pkg
	}
	return env
}

func specErr(format string, args ...interface{}) {
	if os.Getenv("VERIF_DEBUG") == "stack" {
		debug.PrintStack()
	}
	panic(unsupported{"spec: " + fmt.Sprintf(format, args...)})
}

var untypedInt = types.Typ[types.UntypedInt]
var tInt = types.Typ[types.Int]
var tBool = types.Typ[types.Bool]

func (env *SpecEnv) evalBool(e ast.Expr) *Term {
	v := env.eval(e)
	s, ok := v.(Sc)
	if !ok || s.T.Sort != BoolSort {
		specErr("expected boolean expression: %s", exprStr(e))
	}
	return s.T
}

func exprStr(e ast.Expr) string {
	var sb strings.Builder
	writeExpr(&sb, e)
	return sb.String()
}

func writeExpr(sb *strings.Builder, e ast.Expr) {
	switch x := e.(type) {
	case *ast.Ident:
		sb.WriteString(x.Name)
	case *ast.BasicLit:
		sb.WriteString(x.Value)
	case *ast.BinaryExpr:
		writeExpr(sb, x.X)
		sb.WriteString(" " + x.Op.String() + " ")
		writeExpr(sb, x.Y)
	case *ast.UnaryExpr:
		sb.WriteString(x.Op.String())
		writeExpr(sb, x.X)
	case *ast.ParenExpr:
		sb.WriteString("(")
		writeExpr(sb, x.X)
		sb.WriteString(")")
	case *ast.SelectorExpr:
		writeExpr(sb, x.X)
		sb.WriteString("." + x.Sel.Name)
	case *ast.StarExpr:
		sb.WriteString("*")
		writeExpr(sb, x.X)
	case *ast.IndexExpr:
		writeExpr(sb, x.X)
		sb.WriteString("[")
		writeExpr(sb, x.Index)
		sb.WriteString("]")
	case *ast.SliceExpr:
		writeExpr(sb, x.X)
		sb.WriteString("[")
		if x.Low != nil {
			writeExpr(sb, x.Low)
		}
		sb.WriteString(":")
		if x.High != nil {
			writeExpr(sb, x.High)
		}
		sb.WriteString("]")
	case *ast.CallExpr:
		writeExpr(sb, x.Fun)
		sb.WriteString("(")
		for i, a := range x.Args {
			if i > 0 {
				sb.WriteString(", ")
			}
			writeExpr(sb, a)
		}
		sb.WriteString(")")
	default:
		fmt.Fprintf(sb, "<%T>", e)
	}
}

// unify adapts untyped constants to the other operand's type.
func unify(a, b Value) (Value, Value) {
	sa, oka := a.(Sc)
	sb, okb := b.(Sc)
	if !oka || !okb {
		return a, b
	}
	if sa.Ty == untypedInt && sb.Ty != untypedInt {
		return castConst(sa, sb.Ty), b
	}
	if sb.Ty == untypedInt && sa.Ty != untypedInt {
		return a, castConst(sb, sa.Ty)
	}
	return a, b
}

func castConst(c Sc, t types.Type) Value {
	w, _, ok := intInfo(t)
	if !ok {
		if isFloat(t) {
			return Sc{App("floatconst", BVSort(64), c.T), t}
		}
		specErr("constant used with non-integer type %s", t)
	}
	if c.T.IsConst() {
		return Sc{BV(c.T.signed(), w), t}
	}
	if w <= 64 {
		return Sc{Extract(w-1, 0, c.T), t}
	}
	return Sc{SExt(c.T, w), t}
}

func (env *SpecEnv) sub(st *State) *SpecEnv {
	n := *env
	n.st = st
	return &n
}

func (env *SpecEnv) eval(e ast.Expr) Value {
	switch x := e.(type) {
	case *ast.ParenExpr:
		return env.eval(x.X)
	case *ast.BasicLit:
		switch x.Kind {
		case token.INT:
			bi, ok := new(big.Int).SetString(x.Value, 0)
			if !ok {
				specErr("bad integer literal %s", x.Value)
			}
			return Sc{BV(bi, 64), untypedInt}
		case token.CHAR:
			r, _, _, err := strconv.UnquoteChar(x.Value[1:len(x.Value)-1], '\'')
			if err != nil {
				specErr("bad char literal")
			}
			return Sc{BVi(int64(r), 64), untypedInt}
		case token.STRING:
			s, err := strconv.Unquote(x.Value)
			if err != nil {
				specErr("bad string literal")
			}
			return StrV{env.ex.P.strConst(s), types.Typ[types.String]}
		}
		specErr("literal %s", x.Value)
	case *ast.Ident:
		return env.ident(x.Name)
	case *ast.UnaryExpr:
		switch x.Op {
		case token.NOT:
			n := *env
			n.neg = !env.neg
			return Sc{Not(n.evalBool(x.X)), tBool}
		case token.SUB:
			v := env.eval(x.X).(Sc)
			return Sc{Neg(v.T), v.Ty}
		case token.XOR:
			v := env.eval(x.X).(Sc)
			return Sc{BNot(v.T), v.Ty}
		case token.AND:
			l := env.loc(x.X)
			return PtrV{l, types.NewPointer(l.Ty)}
		}
		specErr("unary %s", x.Op)
	case *ast.BinaryExpr:
		return env.binary(x)
	case *ast.StarExpr:
		p, ok := env.eval(x.X).(PtrV)
		if !ok {
			specErr("deref of non-pointer %s", exprStr(x.X))
		}
		return env.loadLoc(p.L)
	case *ast.SelectorExpr:
		return env.selector(x)
	case *ast.IndexExpr:
		return env.indexExpr(x)
	case *ast.SliceExpr:
		return env.sliceExpr(x)
	case *ast.CallExpr:
		return env.call(x)
	case *ast.TypeAssertExpr:
		// x.(*T) in a specification: the pointer held by the interface value (the clause should
		// also say, or be guarded by, what makes the dynamic type *T; a wrong type reads fields
		// of an unrelated reference, which only makes the clause unprovable)
		iv, ok := env.eval(x.X).(IfV)
		if !ok {
			specErr("type assertion on a non-interface value %s", exprStr(x.X))
		}
		t := env.resolveType(x.Type)
		if t == nil {
			specErr("unknown type in %s", exprStr(x))
		}
		if iv.Conc != nil && types.Identical(iv.Conc.Type(), t) {
			return iv.Conc
		}
		pt, isPtr := t.Underlying().(*types.Pointer)
		if !isPtr {
			specErr("type assertion to a non-pointer type %s in a specification", t)
		}
		return PtrV{Loc{Kind: LHeap, Root: pt.Elem(), Ref: iv.Ref, Ty: pt.Elem()}, t}
	case *ast.CompositeLit:
		t := env.resolveType(x.Type)
		if t == nil {
			specErr("unknown type in composite literal %s", exprStr(x.Type))
		}
		st, ok := t.Underlying().(*types.Struct)
		if !ok {
			specErr("composite literal of non-struct type %s", t)
		}
		sv := zeroValue(t).(StV)
		out := StV{Ty: t, F: append([]Value{}, sv.F...)}
		for i, el := range x.Elts {
			idx := i
			val := el
			if kv, isKV := el.(*ast.KeyValueExpr); isKV {
				name := kv.Key.(*ast.Ident).Name
				idx = -1
				for j := 0; j < st.NumFields(); j++ {
					if st.Field(j).Name() == name {
						idx = j
					}
				}
				if idx < 0 {
					specErr("no field %s in %s", name, t)
				}
				val = kv.Value
			}
			v := env.coerce(env.eval(val), st.Field(idx).Type())
			if sc, isSc := v.(Sc); isSc {
				if w, _, isInt := intInfo(st.Field(idx).Type()); isInt && sc.T.Sort.Kind == SBV && sc.T.Sort.W != w {
					specErr("field %s of %s: width mismatch", st.Field(idx).Name(), t)
				}
			}
			out.F[idx] = retype(v, st.Field(idx).Type())
		}
		return out
	}
	specErr("unsupported expression %s (%T)", exprStr(e), e)
	return nil
}

func (env *SpecEnv) loadLoc(l Loc) Value {
	if l.Kind == LGlobal {
		if v, ok := env.ex.P.immutableGlobal(l); ok {
			return v
		}
	}
	if l.Kind == LArr {
		return loadArr(env.st, l)
	}
	// loads in specifications do not add assumptions to the state being described,
	// but well-formedness of what is read is a fact about any Go heap.
	return env.st.load(l)
}

func (env *SpecEnv) ident(name string) Value {
	switch name {
	case "true":
		return Sc{True, tBool}
	case "false":
		return Sc{False, tBool}
	case "nil":
		return Sc{BVi(0, 32), types.Typ[types.UntypedNil]}
	}
	if v, ok := env.vars[name]; ok {
		return v
	}
	if env.fr != nil {
		if env.useLocals {
			if c := env.fr.namedCell(name, env.st); c != nil {
				return env.st.Cells[c]
			}
			if p, ok := env.fr.namedHeap[name]; ok {
				return env.loadLoc(p.L)
			}
		}
		if v, ok := env.fr.params[name]; ok {
			return v
		}
		// closures: free variables by name
		for i, fv := range env.fr.fn.FreeVars {
			if fv.Name() == name && i < len(env.fr.freevars) {
				p := env.fr.freevars[i].(PtrV)
				return env.st.load(p.L)
			}
		}
	}
	if env.pkg != nil {
		if obj := env.pkg.Scope().Lookup(name); obj != nil {
			return env.object(obj)
		}
	}
	if obj := types.Universe.Lookup(name); obj != nil {
		if c, ok := obj.(*types.Const); ok {
			return env.constObj(c)
		}
	}
	// a parameter or local that was renamed since the contract was written: the name now
	// declared at the same position
	if nn, ok := env.ex.rename[name]; ok && nn != name && env.renameDepth < 2 {
		env.ex.note("identifier %s of the contract resolved to %s (declaration renamed in %s)", name, nn, env.ex.fn)
		n := *env
		n.renameDepth++
		return n.ident(nn)
	}
	specErr("unknown identifier %q", name)
	return nil
}

func (env *SpecEnv) constObj(c *types.Const) Value {
	t := c.Type()
	switch {
	case isBool(t):
		return Sc{Bool(constant.BoolVal(c.Val())), tBool}
	case isString(t):
		return StrV{env.ex.P.strConst(constant.StringVal(c.Val())), t}
	}
	bi, ok := new(big.Int).SetString(c.Val().ExactString(), 10)
	if !ok {
		specErr("constant %s is not an integer", c.Name())
	}
	if b, isB := t.Underlying().(*types.Basic); isB && b.Info()&types.IsUntyped != 0 {
		return Sc{BV(bi, 64), untypedInt}
	}
	w, _, ok2 := intInfo(t)
	if !ok2 {
		specErr("constant %s of type %s", c.Name(), t)
	}
	return Sc{BV(bi, w), t}
}

func (env *SpecEnv) object(obj types.Object) Value {
	switch o := obj.(type) {
	case *types.Const:
		return env.constObj(o)
	case *types.Var:
		// package-level variable
		g := env.ex.P.globalOf(o)
		if g == nil {
			specErr("no SSA global for %s", o.Name())
		}
		l := Loc{Kind: LGlobal, Glob: g.String(), Root: o.Type(), Ty: o.Type()}
		return env.loadLoc(l)
	}
	specErr("identifier %s denotes %T", obj.Name(), obj)
	return nil
}

func (env *SpecEnv) binary(x *ast.BinaryExpr) Value {
	switch x.Op {
	case token.LAND:
		a := env.evalBool(x.X)
		n := *env
		if !env.neg {
			n.ctx = And(env.ctx, a)
		}
		b := n.evalBool(x.Y)
		env.skolems = append(env.skolems, n.skolems[len(env.skolems):]...)
		return Sc{And(a, b), tBool}
	case token.LOR:
		a := env.evalBool(x.X)
		n := *env
		if !env.neg {
			n.ctx = And(env.ctx, Not(a))
		}
		b := n.evalBool(x.Y)
		env.skolems = append(env.skolems, n.skolems[len(env.skolems):]...)
		return Sc{Or(a, b), tBool}
	}
	amb := *env
	amb.ambig = true
	a, b := unify(amb.eval(x.X), amb.eval(x.Y))
	if x.Op == token.SHL || x.Op == token.SHR {
		sa, sb := a.(Sc), b.(Sc)
		if sb.Ty == untypedInt {
			sb = Sc{sb.T, types.Typ[types.Uint64]}
		}
		if sa.Ty == untypedInt {
			r := shiftOp(x.Op, Sc{sa.T, types.Typ[types.Int64]}, sb)
			return Sc{r, untypedInt}
		}
		return Sc{shiftOp(x.Op, sa, sb), sa.Ty}
	}
	// nil comparisons
	if sa, ok := a.(Sc); ok && sa.Ty == types.Typ[types.UntypedNil] {
		a = zeroValue(b.Type())
	}
	if sb, ok := b.(Sc); ok && sb.Ty == types.Typ[types.UntypedNil] {
		b = zeroValue(a.Type())
	}
	rt := a.Type()
	switch x.Op {
	case token.EQL, token.NEQ, token.LSS, token.LEQ, token.GTR, token.GEQ:
		rt = tBool
	}
	if sa, ok := a.(Sc); ok && sa.Ty == untypedInt {
		// both untyped: treat as int64
		a = Sc{sa.T, types.Typ[types.Int64]}
		b = Sc{b.(Sc).T, types.Typ[types.Int64]}
		if rt != tBool {
			rt = untypedInt
		}
	}
	if sa, ok := a.(Sc); ok {
		if sb, ok := b.(Sc); ok && sa.T.Sort != sb.T.Sort {
			specErr("operands of %s have different widths in %s (%s vs %s)", x.Op, exprStr(x), sa.Ty, sb.Ty)
		}
	}
	env.ex.noObl++
	defer func() { env.ex.noObl-- }()
	return env.ex.binop(env.st.clone(), x.Op, a, b, rt, token.NoPos)
}

func deref(t types.Type) types.Type {
	if p, ok := t.Underlying().(*types.Pointer); ok {
		return p.Elem()
	}
	return t
}

func (env *SpecEnv) selector(x *ast.SelectorExpr) Value {
	// package-qualified identifier
	if id, ok := x.X.(*ast.Ident); ok {
		if _, isVar := env.vars[id.Name]; !isVar && env.lookupLocal(id.Name) == nil {
			if p := env.ex.P.importedPkg(env.pkg, id.Name); p != nil {
				obj := p.Scope().Lookup(x.Sel.Name)
				if obj == nil {
					specErr("%s.%s not found", id.Name, x.Sel.Name)
				}
				return env.object(obj)
			}
		}
	}
	base := env.eval(x.X)
	return env.fieldOf(base, x.Sel.Name)
}

func (env *SpecEnv) lookupLocal(name string) Value {
	if env.fr == nil {
		return nil
	}
	if env.useLocals {
		if c := env.fr.namedCell(name, env.st); c != nil {
			return env.st.Cells[c]
		}
	}
	if v, ok := env.fr.params[name]; ok {
		return v
	}
	return nil
}

func fieldIndex(t types.Type, name string) ([]int, types.Type) {
	obj, index, _ := types.LookupFieldOrMethod(t, true, nil, name)
	if obj == nil {
		// unexported field from another package: search manually
		st, ok := deref(t).Underlying().(*types.Struct)
		if ok {
			for i := 0; i < st.NumFields(); i++ {
				if st.Field(i).Name() == name {
					return []int{i}, st.Field(i).Type()
				}
			}
			// embedded
			for i := 0; i < st.NumFields(); i++ {
				if st.Field(i).Embedded() {
					if idx, ft := fieldIndex(st.Field(i).Type(), name); idx != nil {
						return append([]int{i}, idx...), ft
					}
				}
			}
		}
		return nil, nil
	}
	v, ok := obj.(*types.Var)
	if !ok {
		return nil, nil
	}
	return index, v.Type()
}

func (env *SpecEnv) fieldOf(base Value, name string) Value {
	idx, _ := fieldIndex(base.Type(), name)
	if idx == nil {
		specErr("no field %s in %s", name, base.Type())
	}
	cur := base
	for _, i := range idx {
		switch b := cur.(type) {
		case PtrV:
			l := b.L
			st := l.Ty.Underlying().(*types.Struct)
			l.Path = append(append([]PathElem{}, l.Path...), PathElem{Field: i})
			l.Ty = st.Field(i).Type()
			// keep as location; load at the end (or at pointer fields)
			cur = env.loadLoc(l)
			// if more indices follow through embedded struct values, continue on the loaded value
		case StV:
			cur = b.F[i]
		default:
			specErr("field %s of %T", name, cur)
		}
	}
	return cur
}

// loc evaluates an expression to a location (for modifies clauses and &e).
func (env *SpecEnv) loc(e ast.Expr) Loc {
	switch x := e.(type) {
	case *ast.ParenExpr:
		return env.loc(x.X)
	case *ast.StarExpr:
		p, ok := env.eval(x.X).(PtrV)
		if !ok {
			specErr("deref of non-pointer in location %s", exprStr(e))
		}
		return p.L
	case *ast.Ident:
		if env.fr != nil && env.useLocals {
			if c := env.fr.namedCell(x.Name, env.st); c != nil {
				return Loc{Kind: LCell, Cell: c, Root: c.Ty, Ty: c.Ty}
			}
		}
		if env.pkg != nil {
			if obj, ok := env.pkg.Scope().Lookup(x.Name).(*types.Var); ok {
				g := env.ex.P.globalOf(obj)
				return Loc{Kind: LGlobal, Glob: g.String(), Root: obj.Type(), Ty: obj.Type()}
			}
		}
		if nn, ok := env.ex.rename[x.Name]; ok && nn != x.Name && env.renameDepth < 2 {
			n := *env
			n.renameDepth++
			return n.loc(&ast.Ident{Name: nn})
		}
		specErr("identifier %s is not a location", x.Name)
	case *ast.SelectorExpr:
		idx, _ := fieldIndex(env.typeOfBase(x.X), x.Sel.Name)
		if idx == nil {
			specErr("no field %s", x.Sel.Name)
		}
		var l Loc
		bv := env.evalLocOrPtr(x.X)
		l = bv
		for _, i := range idx {
			st, ok := l.Ty.Underlying().(*types.Struct)
			if !ok {
				// pointer-typed embedded field: load and continue
				pv, isP := env.loadLoc(l).(PtrV)
				if !isP {
					specErr("field path through non-struct %s", l.Ty)
				}
				l = pv.L
				st = l.Ty.Underlying().(*types.Struct)
			}
			l.Path = append(append([]PathElem{}, l.Path...), PathElem{Field: i})
			l.Ty = st.Field(i).Type()
		}
		return l
	case *ast.IndexExpr:
		base := env.eval(x.X)
		i := env.evalInt(x.Index)
		switch b := base.(type) {
		case SlV:
			return elemLoc(b, i)
		}
		l := env.loc(x.X)
		if at, ok := l.Ty.Underlying().(*types.Array); ok {
			if l.Kind == LArr {
				return Loc{Kind: LElem, Root: at.Elem(), Arr: l.Arr, Idx: i, Ty: at.Elem()}
			}
			if er := embeddedArrayRef(l); er != nil {
				return Loc{Kind: LElem, Root: at.Elem(), Arr: er, Idx: i, Ty: at.Elem()}
			}
			l.Path = append(append([]PathElem{}, l.Path...), PathElem{Idx: i})
			l.Ty = at.Elem()
			return l
		}
		specErr("index location %s", exprStr(e))
	}
	specErr("not a location: %s", exprStr(e))
	return Loc{}
}

func (env *SpecEnv) typeOfBase(e ast.Expr) types.Type {
	// evaluate for type only
	defer func() {}()
	if l, ok := env.tryLoc(e); ok {
		return l.Ty
	}
	return env.eval(e).Type()
}

func (env *SpecEnv) tryLoc(e ast.Expr) (l Loc, ok bool) {
	defer func() {
		if r := recover(); r != nil {
			if _, isU := r.(unsupported); isU {
				ok = false
				return
			}
			panic(r)
		}
	}()
	return env.loc(e), true
}

// evalLocOrPtr: if e denotes a pointer value, the pointee location; else the location of e.
func (env *SpecEnv) evalLocOrPtr(e ast.Expr) Loc {
	if l, ok := env.tryLoc(e); ok {
		if _, isP := l.Ty.Underlying().(*types.Pointer); isP {
			return env.loadLoc(l).(PtrV).L
		}
		return l
	}
	v := env.eval(e)
	if p, ok := v.(PtrV); ok {
		return p.L
	}
	specErr("%s is neither a pointer nor a location", exprStr(e))
	return Loc{}
}

func (env *SpecEnv) evalInt(e ast.Expr) *Term {
	v, ok := env.eval(e).(Sc)
	if !ok {
		specErr("expected integer: %s", exprStr(e))
	}
	if v.Ty == untypedInt {
		return v.T
	}
	return toInt64(v)
}

func (env *SpecEnv) indexExpr(x *ast.IndexExpr) Value {
	base := env.eval(x.X)
	switch b := base.(type) {
	case SlV:
		i := env.evalInt(x.Index)
		return env.st.load(elemLoc(b, i))
	case StrV:
		i := env.evalInt(x.Index)
		return Sc{strByte(b.S, i), types.Typ[types.Uint8]}
	case ArrV:
		i := env.evalInt(x.Index)
		return cellGet(b, []PathElem{{Idx: i}})
	case PtrV:
		if at, ok := b.L.Ty.Underlying().(*types.Array); ok {
			i := env.evalInt(x.Index)
			if b.L.Kind == LArr {
				return env.st.load(Loc{Kind: LElem, Root: at.Elem(), Arr: b.L.Arr, Idx: i, Ty: at.Elem()})
			}
			if er := embeddedArrayRef(b.L); er != nil {
				return env.st.load(Loc{Kind: LElem, Root: at.Elem(), Arr: er, Idx: i, Ty: at.Elem()})
			}
			l := b.L
			l.Path = append(append([]PathElem{}, l.Path...), PathElem{Idx: i})
			l.Ty = at.Elem()
			return env.st.load(l)
		}
	case Sc:
		if mt, ok := b.Ty.Underlying().(*types.Map); ok {
			kv := env.eval(x.Index)
			kv = env.coerce(kv, mt.Key())
			return env.ex.mapLookupPure(env.st, mt, b.T, keyTerm(kv))
		}
	}
	specErr("cannot index %s", exprStr(x.X))
	return nil
}

func (env *SpecEnv) coerce(v Value, t types.Type) Value {
	if s, ok := v.(Sc); ok && s.Ty == untypedInt {
		return castConst(s, t)
	}
	return v
}

func (env *SpecEnv) sliceExpr(x *ast.SliceExpr) Value {
	base := env.eval(x.X)
	b, ok := base.(SlV)
	if !ok {
		specErr("slice expression on %T", base)
	}
	lo, hi := BVi(0, 64), b.Len
	if x.Low != nil {
		lo = env.evalInt(x.Low)
	}
	if x.High != nil {
		hi = env.evalInt(x.High)
	}
	return SlV{b.Arr, Add(b.Off, lo), Sub(hi, lo), Sub(b.Cap, lo), b.Ty}
}

func (env *SpecEnv) resolveType(e ast.Expr) types.Type {
	switch x := e.(type) {
	case *ast.Ident:
		if obj, ok := types.Universe.Lookup(x.Name).(*types.TypeName); ok {
			return obj.Type()
		}
		if env.pkg != nil {
			if obj, ok := env.pkg.Scope().Lookup(x.Name).(*types.TypeName); ok {
				return obj.Type()
			}
		}
	case *ast.SelectorExpr:
		if id, ok := x.X.(*ast.Ident); ok {
			if p := env.ex.P.importedPkg(env.pkg, id.Name); p != nil {
				if obj, ok := p.Scope().Lookup(x.Sel.Name).(*types.TypeName); ok {
					return obj.Type()
				}
			}
		}
	case *ast.ParenExpr:
		return env.resolveType(x.X)
	case *ast.StarExpr:
		if t := env.resolveType(x.X); t != nil {
			return types.NewPointer(t)
		}
	case *ast.ArrayType:
		if x.Len == nil {
			if t := env.resolveType(x.Elt); t != nil {
				return types.NewSlice(t)
			}
		}
	case *ast.MapType:
		k, v := env.resolveType(x.Key), env.resolveType(x.Value)
		if k != nil && v != nil {
			return types.NewMap(k, v)
		}
	}
	return nil
}

// resolveTypeArg resolves a type argument of a modifies form: a type expression, or a string
// literal "<package path relative to the module>.<TypeName>" naming a type of a package that
// need not be imported by the contract's package (nil, true if that package is not loaded:
// no object of the type can exist in the program under verification).
func (env *SpecEnv) resolveTypeArg(a ast.Expr) (types.Type, bool) {
	if lit, ok := a.(*ast.BasicLit); ok && lit.Kind == token.STRING {
		s, _ := strconv.Unquote(lit.Value)
		i := strings.LastIndex(s, ".")
		if i < 0 {
			specErr("type name %q: want <package>.<Type>", s)
		}
		path := env.ex.P.modulePath + "/" + s[:i]
		p := env.ex.P.allPkgs[path]
		if p == nil || p.Types == nil {
			return nil, true
		}
		obj := p.Types.Scope().Lookup(s[i+1:])
		if tn, ok := obj.(*types.TypeName); ok {
			return tn.Type(), false
		}
		specErr("type %q not found", s)
	}
	t := env.resolveType(a)
	if t == nil {
		specErr("unknown type %s", exprStr(a))
	}
	return t, false
}

func (env *SpecEnv) call(x *ast.CallExpr) Value {
	// special forms and library
	if id, ok := x.Fun.(*ast.Ident); ok {
		if v, handled := env.special(id.Name, x); handled {
			return v
		}
		// specification macros of this package
		if env.pkg != nil {
			if m := env.ex.P.macros[env.pkg.Path()+":"+id.Name]; m != nil {
				if len(x.Args) != len(m.Params) {
					specErr("macro %s takes %d arguments", m.Name, len(m.Params))
				}
				if env.macroDepth > 8 {
					specErr("macro expansion too deep at %s", m.Name)
				}
				n := *env
				n.macroDepth++
				n.vars = map[string]Value{}
				for k, v := range env.vars {
					n.vars[k] = v
				}
				for i, a := range x.Args {
					n.vars[m.Params[i]] = env.eval(a)
				}
				v := n.eval(m.Body)
				env.skolems = append(env.skolems, n.skolems[len(env.skolems):]...)
				return v
			}
		}
	}
	// conversion
	if t := env.resolveType(x.Fun); t != nil && len(x.Args) == 1 {
		v := env.eval(x.Args[0])
		if s, ok := v.(Sc); ok && s.Ty == untypedInt {
			return castConst(s, t)
		}
		return env.ex.convert(env.st.clone(), v, t)
	}
	// pure call of a Go function or method
	var fn *ssa.Function
	var args []Value
	switch f := x.Fun.(type) {
	case *ast.Ident:
		fn = env.ex.P.funcByName(env.pkg, f.Name)
		if fn == nil {
			specErr("unknown function %s", f.Name)
		}
	case *ast.SelectorExpr:
		if id, ok := f.X.(*ast.Ident); ok && env.lookupLocal(id.Name) == nil && env.vars[id.Name] == nil {
			if p := env.ex.P.importedPkg(env.pkg, id.Name); p != nil {
				// a specification macro of the imported package, evaluated in that package
				if m := env.ex.P.macros[p.Path()+":"+f.Sel.Name]; m != nil {
					if len(x.Args) != len(m.Params) {
						specErr("macro %s takes %d arguments", m.Name, len(m.Params))
					}
					if env.macroDepth > 8 {
						specErr("macro expansion too deep at %s", m.Name)
					}
					n := *env
					n.macroDepth++
					n.pkg = p
					n.vars = map[string]Value{}
					for i, a := range x.Args {
						n.vars[m.Params[i]] = env.eval(a)
					}
					v := n.eval(m.Body)
					env.skolems = append(env.skolems, n.skolems[len(env.skolems):]...)
					return v
				}
				fn = env.ex.P.funcByName(p, f.Sel.Name)
				if fn == nil {
					specErr("unknown function %s.%s", id.Name, f.Sel.Name)
				}
				break
			}
		}
		recv := env.eval(f.X)
		var rv Value
		fn, rv = env.ex.P.methodFor(env, recv, f.Sel.Name, f.X)
		if fn == nil {
			specErr("no method %s on %s", f.Sel.Name, recv.Type())
		}
		args = append(args, rv)
	default:
		specErr("call of %s", exprStr(x.Fun))
	}
	sig := fn.Signature
	off := len(args)
	for i, a := range x.Args {
		v := env.eval(a)
		if i < sig.Params().Len() {
			v = env.coerce(v, sig.Params().At(i).Type())
			if sv, ok := v.(Sc); ok && sv.Ty == types.Typ[types.UntypedNil] {
				v = zeroValue(sig.Params().At(i).Type())
			}
		}
		args = append(args, v)
	}
	_ = off
	return env.ex.pureCall(env, fn, args)
}

// pureCall evaluates fn on args in the current spec state and returns its result; state
// changes are discarded and no obligations are generated.
func (ex *Exec) pureCall(env *SpecEnv, fn *ssa.Function, args []Value) Value {
	if sf := ex.P.specFuncs[fn.String()]; sf != nil {
		return sf(env, args)
	}
	// a function whose contract says `pure`: the same uninterpreted function of the argument
	// leaves that applyContract equates call results with (scalar results only)
	if ct := ex.P.contractOf(fn); ct != nil && ct.Pure {
		rs := fn.Signature.Results()
		if rs.Len() != 1 {
			specErr("pure function %s in a specification: exactly one result expected", fn)
		}
		var argLeaves []*Term
		for _, a := range args {
			argLeaves = append(argLeaves, flatten(a)...)
		}
		zr := flatten(zeroValue(rs.At(0).Type()))
		if len(zr) != 1 {
			specErr("pure function %s in a specification: scalar result expected", fn)
		}
		return Sc{App(fmt.Sprintf("pure|%s:%s|%d", ct.Pkg, ct.FnName, 0), zr[0].Sort, argLeaves...), rs.At(0).Type()}
	}
	ex.noObl++
	defer func() { ex.noObl-- }()
	st := env.st.clone()
	st.G = True
	fr := newFrame(fn, env.fr)
	if fr.depth > 12 {
		specErr("pure call nesting too deep at %s", fn)
	}
	fr.isSpec = true
	nl := len(ex.lazy)
	v, out := ex.runFunction(fr, st, args)
	_ = nl
	if out == nil {
		specErr("pure call of %s never returns", fn)
	}
	return v
}

func (env *SpecEnv) special(name string, x *ast.CallExpr) (Value, bool) {
	switch name {
	case "caller":
		// in an at_call clause: the caller's own parameter or local of that name, where a
		// parameter of the callee shadows it
		n := *env
		n.vars = map[string]Value{}
		if env.fr != nil {
			if id, ok := x.Args[0].(*ast.Ident); ok {
				if c := env.fr.namedCell(id.Name, env.st); c == nil {
					if v, ok := env.ex.callerParams[id.Name]; ok {
						return v, true
					}
				}
			}
		}
		return n.eval(x.Args[0]), true
	case "old":
		if env.old == nil {
			specErr("old() not available here")
		}
		n := *env
		n.st = env.old
		n.useLocals = false
		v := n.eval(x.Args[0])
		return v, true
	case "implies":
		n1 := *env
		n1.neg = !env.neg
		a := n1.evalBool(x.Args[0])
		n := *env
		if !env.neg {
			n.ctx = And(env.ctx, a)
		}
		b := n.evalBool(x.Args[1])
		env.skolems = append(env.skolems, n.skolems[len(env.skolems):]...)
		return Sc{Implies(a, b), tBool}, true
	case "iff":
		amb := *env
		amb.ambig = true
		a := amb.evalBool(x.Args[0])
		b := amb.evalBool(x.Args[1])
		return Sc{Eq(a, b), tBool}, true
	case "ite":
		amb := *env
		amb.ambig = true
		c := amb.evalBool(x.Args[0])
		a, b := unify(env.eval(x.Args[1]), env.eval(x.Args[2]))
		return iteValue(c, a, b), true
	case "forall", "exists":
		return env.quant(name, x), true
	case "forallkey", "existskey":
		return env.quantKey(name, x), true
	case "ghost":
		// ghost(name): a ghost integer variable (exists only in the verifier)
		id, ok := x.Args[0].(*ast.Ident)
		if !ok {
			specErr("ghost(name)")
		}
		return Sc{env.st.heap("G|ghost."+id.Name+"|", IntSort), tInt}, true
	case "ghostat":
		// ghostat(name, k): element k of a ghost integer sequence
		id, ok := x.Args[0].(*ast.Ident)
		if !ok {
			specErr("ghostat(name, k)")
		}
		k := env.evalInt(x.Args[1])
		return Sc{Select(env.st.heap("G|ghostarr."+id.Name+"|", ArraySort(IntSort, IntSort)), k), tInt}, true
	case "unbox":
		// unbox(x, T): the value of (non-pointer) type T boxed in interface value x
		iv, ok := env.eval(x.Args[0]).(IfV)
		if !ok {
			specErr("unbox: first argument must be an interface value")
		}
		t := env.resolveType(x.Args[1])
		if t == nil {
			specErr("unbox: unknown type %s", exprStr(x.Args[1]))
		}
		if iv.Conc != nil && types.Identical(iv.Conc.Type(), t) {
			return iv.Conc, true
		}
		return env.st.load(Loc{Kind: LHeap, Root: t, Ref: iv.Ref, Ty: t}), true
	case "hastype":
		// hastype(x, T): the dynamic type of interface value x is T
		iv, ok := env.eval(x.Args[0]).(IfV)
		if !ok {
			specErr("hastype: first argument must be an interface value")
		}
		t := env.resolveType(x.Args[1])
		if t == nil {
			specErr("hastype: unknown type %s", exprStr(x.Args[1]))
		}
		return Sc{Eq(iv.Tag, env.ex.P.typeTag(t)), tBool}, true
	case "as":
		// as(x, *T): the pointer held by interface value x (meaningful when hastype(x, *T))
		iv, ok := env.eval(x.Args[0]).(IfV)
		if !ok {
			specErr("as: first argument must be an interface value")
		}
		t := env.resolveType(x.Args[1])
		if t == nil {
			specErr("as: unknown type %s", exprStr(x.Args[1]))
		}
		pt, isP := t.Underlying().(*types.Pointer)
		if !isP {
			specErr("as: second argument must be a pointer type")
		}
		if iv.Conc != nil && types.Identical(iv.Conc.Type(), t) {
			return iv.Conc, true
		}
		return PtrV{Loc{Kind: LHeap, Root: pt.Elem(), Ref: iv.Ref, Ty: pt.Elem()}, t}, true
	case "local":
		// local(x): the value of local variable x in the state being described (for hints in
		// postconditions; contracts proper should not depend on locals)
		n := *env
		n.useLocals = true
		return n.eval(x.Args[0]), true
	case "using":
		// using(t, F): F, with t offered as an instantiation term for the quantified facts
		// available to the obligation being built
		if !env.assume {
			v := env.eval(x.Args[0])
			if sc, ok := v.(Sc); ok {
				t := sc.T
				if sc.Ty != untypedInt && t.Sort.Kind == SBV && t.Sort.W != 64 {
					t = toInt64(sc)
				}
				env.ex.goalHints = append(env.ex.goalHints, t)
			}
		}
		return env.eval(x.Args[1]), true
	case "callp1", "callp2", "callp3":
		// callpN(param, args...): N-th result of the pure function-typed parameter
		id, ok := x.Args[0].(*ast.Ident)
		if !ok || env.fr == nil {
			specErr("%s(param, args...)", name)
		}
		pv, ok := env.fr.params[id.Name]
		if !ok {
			specErr("%s: unknown parameter %s", name, id.Name)
		}
		sig, ok := pv.Type().Underlying().(*types.Signature)
		if !ok {
			specErr("%s: %s is not a function", name, id.Name)
		}
		var leaves []*Term
		for i, a := range x.Args[1:] {
			v := env.eval(a)
			if i < sig.Params().Len() {
				v = env.coerce(v, sig.Params().At(i).Type())
				if sc, isSc := v.(Sc); isSc {
					if w, _, isInt := intInfo(sig.Params().At(i).Type()); isInt && sc.T.Sort.Kind == SBV && sc.T.Sort.W != w {
						specErr("%s: argument %d has the wrong width", name, i+1)
					}
				}
			}
			leaves = append(leaves, flatten(v)...)
		}
		var rt types.Type = sig.Results()
		if sig.Results().Len() == 1 {
			rt = sig.Results().At(0).Type()
		}
		ls := leavesOf(rt)
		ts := make([]*Term, len(ls))
		for i, l := range ls {
			ts[i] = App(fmt.Sprintf("param|%s.%s|%d", fnKey(env.fr.fn), id.Name, i), l.Sort, leaves...)
		}
		res := fromLeaves(rt, ts)
		n := int(name[5] - '1')
		if tv, isT := res.(TupV); isT {
			if n >= len(tv.E) {
				specErr("%s: function has %d results", name, len(tv.E))
			}
			return tv.E[n], true
		}
		return res, true
	case "len":
		v := env.eval(x.Args[0])
		switch b := v.(type) {
		case SlV:
			return Sc{b.Len, tInt}, true
		case StrV:
			return Sc{strLen(b.S), tInt}, true
		case ArrV:
			return Sc{BVi(b.Ty.Underlying().(*types.Array).Len(), 64), tInt}, true
		case Sc:
			if mt, ok := b.Ty.Underlying().(*types.Map); ok {
				return Sc{Ite(Eq(b.T, BVi(0, 32)), BVi(0, 64), env.ex.mapCard(env.st, mt, b.T)), tInt}, true
			}
		case PtrV:
			if at, ok := b.L.Ty.Underlying().(*types.Array); ok {
				return Sc{BVi(at.Len(), 64), tInt}, true
			}
		}
		specErr("len of %T", v)
	case "cap":
		v := env.eval(x.Args[0])
		if b, ok := v.(SlV); ok {
			return Sc{b.Cap, tInt}, true
		}
		specErr("cap of %T", v)
	case "result":
		if v, ok := env.vars["result"]; ok {
			return v, true
		}
	case "has":
		// has(m, k): key k present in map m
		m := env.eval(x.Args[0]).(Sc)
		mt := m.Ty.Underlying().(*types.Map)
		kv := env.coerce(env.eval(x.Args[1]), mt.Key())
		return Sc{And(Neq(m.T, BVi(0, 32)), env.ex.mapPresent(env.st, mt, m.T, keyTerm(kv))), tBool}, true
	case "arr":
		// arr(s): identity of the backing array of slice s
		v := env.eval(x.Args[0]).(SlV)
		return Sc{v.Arr, types.Typ[types.Uint32]}, true
	case "off":
		v := env.eval(x.Args[0]).(SlV)
		return Sc{v.Off, tInt}, true
	case "fresh":
		// fresh(p): p was allocated during this call
		if env.old == nil {
			specErr("fresh() needs an old state")
		}
		v := env.eval(x.Args[0])
		var r *Term
		switch b := v.(type) {
		case PtrV:
			r = b.L.Ref
		case SlV:
			r = b.Arr
		case Sc:
			r = b.T
		default:
			specErr("fresh of %T", v)
		}
		return Sc{And(Not(ULt(r, env.old.Alloc)), ULt(r, env.st.Alloc)), tBool}, true
	}
	if lf, ok := specLibraryLate[name]; ok {
		return lf(env, x.Args), true
	}
	if lf, ok := specLibrary[name]; ok {
		var args []Value
		for _, a := range x.Args {
			args = append(args, env.eval(a))
		}
		return lf(env, args), true
	}
	return nil, false
}

// valueFromKey rebuilds a value of map-key type kt from its concatenated key term.
func valueFromKey(kt types.Type, key *Term) Value {
	ls := leavesOf(kt)
	pos := key.Sort.W
	ts := make([]*Term, len(ls))
	for i, l := range ls {
		w := 1
		if l.Sort.Kind == SBV {
			w = l.Sort.W
		}
		t := Extract(pos-1, pos-w, key)
		pos -= w
		if l.Sort == BoolSort {
			ts[i] = Eq(t, BVi(1, 1))
		} else {
			ts[i] = t
		}
	}
	if len(ls) == 0 {
		return fromLeaves(kt, nil)
	}
	return fromLeaves(kt, ts)
}

// quantKey handles forallkey(k, m, body) / existskey(k, m, body[, witness]): k ranges over
// ALL values of the key type of map m (use has(m, k) in the body to restrict to present keys).
func (env *SpecEnv) quantKey(kind string, x *ast.CallExpr) Value {
	if len(x.Args) < 3 {
		specErr("%s needs (var, map, body)", kind)
	}
	id, ok := x.Args[0].(*ast.Ident)
	if !ok {
		specErr("%s: first argument must be an identifier", kind)
	}
	mv, ok := env.eval(x.Args[1]).(Sc)
	if !ok {
		specErr("%s: second argument must be a map", kind)
	}
	mt, ok := mv.Ty.Underlying().(*types.Map)
	if !ok {
		specErr("%s: second argument must be a map", kind)
	}
	ks := keySort(mt.Key())
	isForall := kind == "forallkey"
	bodyAt := func(e *SpecEnv, k *Term) *Term {
		n := *e
		n.vars = map[string]Value{}
		for kk, vv := range e.vars {
			n.vars[kk] = vv
		}
		kv := valueFromKey(mt.Key(), k)
		n.vars[id.Name] = kv
		// strings among the key leaves are well-formed strings
		wf := env.st.wf(kv)
		b := n.evalBool(x.Args[2])
		if len(n.skolems) > len(e.skolems) {
			// constants introduced for nested quantifiers belong to the enclosing formula too
			e.skolems = append(e.skolems[:len(e.skolems):len(e.skolems)], n.skolems[len(e.skolems):]...)
		}
		if isForall {
			return Implies(wf, b)
		}
		return And(wf, b)
	}
	if !isForall && len(x.Args) == 4 && !env.assume {
		w := env.coerce(env.eval(x.Args[3]), mt.Key())
		return Sc{bodyAt(env, keyTerm(w)), tBool}
	}
	if env.ambig {
		specErr("quantifier %s occurs under ==, !=, iff or an ite condition, where it has no definite polarity: write two implications", exprStr(x))
	}
	assertedPos := env.assume != env.neg
	effUniversal := isForall == assertedPos
	if !effUniversal {
		k := Fresh("sk_"+id.Name, ks)
		env.skolems = append(env.skolems, k)
		return Sc{bodyAt(env, k), tBool}
	}
	guard := And(env.st.G, env.ctx)
	snap := *env
	snap.st = env.st.clone()
	lf := &LazyForall{Guard: guard, Sort: ks, Desc: exprStr(x), Body: func(k *Term) *Term {
		e2 := snap
		e2.st = snap.st.clone() // facts assumed while evaluating one instance must not leak into the guards of later (nested) ones
		e2.skolems = nil
		t := bodyAt(&e2, k)
		if !isForall {
			t = Not(t)
		}
		return t
	}}
	if env.assume {
		env.ex.addLazy(lf)
	} else {
		lf.Guard = env.ctx
		env.ex.goalLazy = append(env.ex.goalLazy, lf)
	}
	if !isForall {
		return Sc{False, tBool}
	}
	return Sc{True, tBool}
}

// quant handles forall(k, lo, hi, body) / exists(k, lo, hi, body[, witness]).
func (env *SpecEnv) quant(kind string, x *ast.CallExpr) Value {
	if len(x.Args) < 4 {
		specErr("%s needs (var, lo, hi, body)", kind)
	}
	id, ok := x.Args[0].(*ast.Ident)
	if !ok {
		specErr("%s: first argument must be an identifier", kind)
	}
	lo := env.evalInt(x.Args[1])
	hi := env.evalInt(x.Args[2])
	universal := (kind == "forall") != env.neg
	bodyAt := func(e *SpecEnv, k *Term) *Term {
		n := *e
		n.vars = map[string]Value{}
		for kk, vv := range e.vars {
			n.vars[kk] = vv
		}
		n.vars[id.Name] = Sc{k, tInt}
		rng := And(SLe(lo, k), SLt(k, hi))
		b := n.evalBool(x.Args[3])
		if len(n.skolems) > len(e.skolems) {
			e.skolems = append(e.skolems[:len(e.skolems):len(e.skolems)], n.skolems[len(e.skolems):]...)
		}
		if kind == "forall" {
			return Implies(rng, b)
		}
		return And(rng, b)
	}
	if kind == "exists" && len(x.Args) == 5 && !env.assume {
		// explicit witness
		w := env.evalInt(x.Args[4])
		return Sc{bodyAt(env, w), tBool}
	}
	_ = universal
	// polarity of this subformula in the formula that is finally asserted to the solver:
	// an assumed clause is asserted as is, a goal is asserted negated.
	if env.ambig {
		specErr("quantifier %s occurs under ==, !=, iff or an ite condition, where it has no definite polarity: write two implications", exprStr(x))
	}
	assertedPos := env.assume != env.neg
	effUniversal := (kind == "forall") == assertedPos
	if !effUniversal {
		// effectively existential (assumed exists, or a forall that has to be proved):
		// a fresh constant stands for the witness / arbitrary element
		k := Fresh("sk_"+id.Name, IntSort)
		env.skolems = append(env.skolems, k)
		return Sc{bodyAt(env, k), tBool}
	}
	// effectively universal (assumed forall, a forall among the hypotheses of a goal, or an
	// exists that has to be proved): ground instantiation at the index terms of the query
	guard := And(env.st.G, env.ctx)
	snap := *env
	snap.st = env.st.clone()
	lf := &LazyForall{Guard: guard, Sort: IntSort, Desc: exprStr(x), Body: func(k *Term) *Term {
		e2 := snap
		e2.st = snap.st.clone() // facts assumed while evaluating one instance must not leak into the guards of later (nested) ones
		e2.skolems = nil
		t := bodyAt(&e2, k)
		if kind == "exists" {
			t = Not(t)
		}
		return t
	}}
	if env.assume {
		env.ex.addLazy(lf)
	} else {
		// belongs to the goal being built only
		lf.Guard = env.ctx
		env.ex.goalLazy = append(env.ex.goalLazy, lf)
	}
	if kind == "exists" {
		return Sc{False, tBool}
	}
	return Sc{True, tBool}
}
