package main

// Contract files: comment-only Go files (build tag verif) holding //@ lines.

import (
	"fmt"
	"go/ast"
	"go/parser"
	"os"
	"path/filepath"
	"strconv"
	"strings"
)

type Clause struct {
	Expr ast.Expr
	Src  string
	File string
	Line int
	Only []string // at_call clauses: generated only under these properties (nil: always)
}

// currentProp: the property being checked (call-site clauses may be restricted to properties).
var currentProp string

func (c Clause) applies() bool {
	if len(c.Only) == 0 || currentProp == "" {
		return true
	}
	for _, p := range c.Only {
		if p == currentProp {
			return true
		}
	}
	return false
}

type LoopSpec struct {
	Invariants []Clause
	Decreases  []Clause // variant: a non-negative integer expression that strictly decreases on every iteration
	Unroll     int
}

type Contract struct {
	FnName     string
	Pkg        string
	Props      []string
	Requires   []Clause
	Ensures    []Clause
	Claims     []Clause // proved like ensures, never assumed by callers
	Modifies   []Clause
	PanicsWhen []Clause
	Applies    []Clause // lemma applications at return: name(args) evaluated over the locals at return
	UnrollCalls map[string]int // callee name -> unroll count: executed in place with loops unrolled
	SplitParam string // case split on an integer parameter over [SplitLo, SplitHi]
	SplitLo    int64
	SplitHi    int64
	Bounded    string // non-empty: this is a bounded stand-in (harness); text states the bound
	PureParams []string // function-typed parameters modelled as uninterpreted pure functions
	Impl       map[string]string // interface type name -> concrete type the precondition fixes
	Reveal     []string // opaque spec functions whose definition is made available to this function's queries
	Loops      map[int]*LoopSpec
	Inline     bool
	Trusted    bool
	GhostSets  []GhostSet
	InlineCallees map[string]bool
	AtSend     map[string][]Clause // channel element type name -> obligations at this function's sends
	AtCall     map[string][]Clause // callee short name -> extra obligations at this function's calls of it
	Pure       bool // interface method / external: the result depends only on receiver identity and arguments
	NoBody     bool // interface method or external: contract only
	External   bool // contract of a function outside the module (assumed, never verified)
	File       string
	Line       int
	bound      bool
}

type LemmaVar struct {
	Name string
	Type string
}

type Lemma struct {
	Name   string
	Pkg    string
	Props  []string
	Vars   []LemmaVar
	Assume []Clause
	Prove  []Clause
	Reveal []string
	Applies []Clause
	File   string
	Line   int
}

// Macro is a specification-level definition: name(params) = expr, expanded by the evaluator.
// GhostSet: a ghost assignment executed at function exit.
type GhostSet struct {
	Name string
	Clause
}

type Macro struct {
	Name   string
	Pkg    string
	Params []string
	Body   ast.Expr
}

type ContractFile struct {
	Pkg       string
	Contracts []*Contract
	Lemmas    []*Lemma
	Macros    []*Macro
}

var clauseKeywords = map[string]bool{"requires": true, "ensures": true, "claims": true, "modifies": true, "panics_when": true, "loop": true,
	"inline": true, "trusted": true, "nobody": true, "var": true, "assume": true, "prove": true, "props": true, "apply": true, "reveal": true, "unroll_calls": true, "bounded": true, "split": true, "pure_param": true, "impl": true, "pure": true, "at_call": true, "ghost_set": true, "inline_callee": true, "at_send": true}

func parseContractFile(path, pkgPath string) (*ContractFile, error) {
	data, err := os.ReadFile(path)
	if err != nil {
		return nil, err
	}
	cf := &ContractFile{Pkg: pkgPath}
	var cur *Contract
	var lem *Lemma
	var last *Clause // for continuation lines
	var lastText *string
	type pending struct {
		c    *Clause
		text string
	}
	var pend []*pending
	flush := func() error {
		for _, p := range pend {
			e, err := parser.ParseExpr(p.text)
			if err != nil {
				return fmt.Errorf("%s:%d: cannot parse %q: %v", path, p.c.Line, p.text, err)
			}
			p.c.Expr = e
			p.c.Src = strings.Join(strings.Fields(p.text), " ")
		}
		pend = nil
		return nil
	}
	_ = last
	_ = lastText
	// clauses are appended to slices; we fix up Expr after all continuation lines are read,
	// so keep pointers to the slice slots via indices.
	type slot struct {
		get func() *Clause
		p   *pending
	}
	var curSlot *pending
	addClause := func(dst *[]Clause, text string, line int) {
		*dst = append(*dst, Clause{File: path, Line: line})
		idx := len(*dst) - 1
		d := dst
		p := &pending{text: text}
		// c pointer is resolved at flush time (slice may grow): store closure
		p.c = &Clause{Line: line}
		pend = append(pend, p)
		curSlot = p
		// record where to copy back
		copyBack = append(copyBack, func() {
			(*d)[idx].Expr = p.c.Expr
			(*d)[idx].Src = p.c.Src
		})
	}
	lines := strings.Split(string(data), "\n")
	for ln, raw := range lines {
		line := strings.TrimSpace(raw)
		if !strings.HasPrefix(line, "//@") {
			continue
		}
		body := strings.TrimSpace(strings.TrimPrefix(line, "//@"))
		if body == "" {
			continue
		}
		if i := strings.Index(body, " //"); i >= 0 {
			body = strings.TrimSpace(body[:i])
		}
		fields := strings.Fields(body)
		kw := fields[0]
		rest := strings.TrimSpace(strings.TrimPrefix(body, kw))
		switch kw {
		case "func":
			cur = &Contract{Pkg: pkgPath, Loops: map[int]*LoopSpec{}, File: path, Line: ln + 1}
			lem = nil
			curSlot = nil
			// name may contain spaces? no: (*T).M or F
			name := fields[1]
			cur.FnName = name
			for i := 2; i < len(fields); i++ {
				if fields[i] == "props" {
					cur.Props = append(cur.Props, fields[i+1:]...)
					break
				}
			}
			cf.Contracts = append(cf.Contracts, cur)
			continue
		case "define":
			// define name(p1, p2) = expr   (a specification macro; continuation lines allowed)
			cur, lem = nil, nil
			open := strings.Index(rest, "(")
			cl := strings.Index(rest, ")")
			if open < 0 || cl < open {
				return nil, fmt.Errorf("%s:%d: define name(params) = expr", path, ln+1)
			}
			after := strings.TrimSpace(rest[cl+1:])
			if !strings.HasPrefix(after, "=") {
				return nil, fmt.Errorf("%s:%d: define name(params) = expr", path, ln+1)
			}
			m := &Macro{Name: strings.TrimSpace(rest[:open]), Pkg: pkgPath}
			for _, p := range strings.Split(rest[open+1:cl], ",") {
				if p = strings.TrimSpace(p); p != "" {
					m.Params = append(m.Params, p)
				}
			}
			cf.Macros = append(cf.Macros, m)
			var tmp []Clause
			addClause(&tmp, strings.TrimSpace(after[1:]), ln+1)
			mm := m
			pp := pend[len(pend)-1]
			copyBack = append(copyBack, func() { mm.Body = pp.c.Expr })
			continue
		case "lemma":
			lem = &Lemma{Pkg: pkgPath, Name: fields[1], File: path, Line: ln + 1}
			cur = nil
			curSlot = nil
			for i := 2; i < len(fields); i++ {
				if fields[i] == "props" {
					lem.Props = append(lem.Props, fields[i+1:]...)
					break
				}
			}
			cf.Lemmas = append(cf.Lemmas, lem)
			continue
		}
		if !clauseKeywords[kw] {
			// continuation of the previous clause
			if curSlot == nil {
				return nil, fmt.Errorf("%s:%d: unexpected %q", path, ln+1, body)
			}
			curSlot.text += " " + body
			continue
		}
		if cur == nil && lem == nil {
			return nil, fmt.Errorf("%s:%d: clause outside func/lemma", path, ln+1)
		}
		if lem != nil {
			switch kw {
			case "var":
				// var a, b uint32
				parts := strings.Fields(strings.ReplaceAll(rest, ",", " "))
				ty := parts[len(parts)-1]
				for _, n := range parts[:len(parts)-1] {
					lem.Vars = append(lem.Vars, LemmaVar{n, ty})
				}
				curSlot = nil
			case "assume":
				addClause(&lem.Assume, rest, ln+1)
			case "prove":
				addClause(&lem.Prove, rest, ln+1)
			case "reveal":
				lem.Reveal = append(lem.Reveal, fields[1:]...)
				curSlot = nil
			case "apply":
				addClause(&lem.Applies, rest, ln+1)
			default:
				return nil, fmt.Errorf("%s:%d: %q not allowed in lemma", path, ln+1, kw)
			}
			continue
		}
		switch kw {
		case "requires":
			addClause(&cur.Requires, rest, ln+1)
		case "claims":
			addClause(&cur.Claims, rest, ln+1)
		case "ensures":
			addClause(&cur.Ensures, rest, ln+1)
		case "panics_when":
			addClause(&cur.PanicsWhen, rest, ln+1)
		case "apply":
			addClause(&cur.Applies, rest, ln+1)
		case "reveal":
			cur.Reveal = append(cur.Reveal, fields[1:]...)
			curSlot = nil
		case "bounded":
			cur.Bounded = rest
			curSlot = nil
		case "pure_param":
			cur.PureParams = append(cur.PureParams, fields[1:]...)
			curSlot = nil
		case "at_send":
			// at_send <ElemType> requires <expr over x>: obligation of THIS function wherever it sends
			// a value x of that (named) element type on a channel
			if len(fields) < 4 || fields[2] != "requires" {
				return nil, fmt.Errorf("%s:%d: at_send <ElemType> requires <expr>", path, ln+1)
			}
			if cur.AtSend == nil {
				cur.AtSend = map[string][]Clause{}
			}
			{
				after := strings.TrimSpace(strings.TrimPrefix(strings.TrimSpace(strings.TrimPrefix(rest, fields[1])), "requires"))
				var tmp []Clause
				addClause(&tmp, after, ln+1)
				cc := cur
				tname := fields[1]
				pp := pend[len(pend)-1]
				copyBack = append(copyBack, func() { cc.AtSend[tname] = append(cc.AtSend[tname], *pp.c) })
			}
			curSlot = nil
		case "inline_callee":
			// inline_callee <name>...: calls of these functions made while verifying THIS function
			// execute the callee's body even though it has a contract (harnesses that must not
			// rely on an assumed contract)
			if cur.InlineCallees == nil {
				cur.InlineCallees = map[string]bool{}
			}
			for _, f := range fields[1:] {
				cur.InlineCallees[f] = true
			}
			curSlot = nil
		case "ghost_set":
			// ghost_set <name> = <expr>: ghost assignment executed when the function returns
			// (expr is evaluated in the final state; old() refers to the entry state)
			eq := strings.Index(rest, "=")
			if eq < 0 {
				return nil, fmt.Errorf("%s:%d: ghost_set <name> = <expr>", path, ln+1)
			}
			gname := strings.TrimSpace(rest[:eq])
			var tmp []Clause
			addClause(&tmp, strings.TrimSpace(rest[eq+1:]), ln+1)
			cc := cur
			pp := pend[len(pend)-1]
			copyBack = append(copyBack, func() { cc.GhostSets = append(cc.GhostSets, GhostSet{gname, *pp.c}) })
			curSlot = nil
		case "at_call":
			// at_call <callee name> requires <expr over the callee's parameters>: an extra
			// obligation of THIS function at each of its calls of that callee
			if len(fields) < 4 || fields[2] != "requires" {
				return nil, fmt.Errorf("%s:%d: at_call <callee> requires <expr>", path, ln+1)
			}
			if cur.AtCall == nil {
				cur.AtCall = map[string][]Clause{}
			}
			after := strings.TrimSpace(strings.TrimPrefix(strings.TrimSpace(strings.TrimPrefix(rest, fields[1])), "requires"))
			var tmp []Clause
			addClause(&tmp, after, ln+1)
			cc := cur
			callee := fields[1]
			var only []string
			// at_call Callee@C13,C06 requires ...: the clause is generated only under those properties
			if k := strings.Index(callee, "@"); k >= 0 {
				only = strings.Split(callee[k+1:], ",")
				callee = callee[:k]
			}
			pp := pend[len(pend)-1]
			copyBack = append(copyBack, func() { cl := *pp.c; cl.Only = only; cc.AtCall[callee] = append(cc.AtCall[callee], cl) })
			curSlot = pp // continuation lines allowed
		case "impl":
			// impl <interface type name> <concrete type>
			if len(fields) != 3 {
				return nil, fmt.Errorf("%s:%d: impl <interface> <concrete type>", path, ln+1)
			}
			if cur.Impl == nil {
				cur.Impl = map[string]string{}
			}
			cur.Impl[fields[1]] = fields[2]
			curSlot = nil
		case "split":
			if len(fields) != 4 {
				return nil, fmt.Errorf("%s:%d: split <param> <lo> <hi>", path, ln+1)
			}
			lo, err1 := strconv.ParseInt(fields[2], 10, 64)
			hi, err2 := strconv.ParseInt(fields[3], 10, 64)
			if err1 != nil || err2 != nil || hi < lo || hi-lo > 64 {
				return nil, fmt.Errorf("%s:%d: bad split range", path, ln+1)
			}
			cur.SplitParam, cur.SplitLo, cur.SplitHi = fields[1], lo, hi
			curSlot = nil
		case "unroll_calls":
			if len(fields) != 3 {
				return nil, fmt.Errorf("%s:%d: unroll_calls <function> <count>", path, ln+1)
			}
			k, err := strconv.Atoi(fields[2])
			if err != nil {
				return nil, fmt.Errorf("%s:%d: bad unroll count", path, ln+1)
			}
			if cur.UnrollCalls == nil {
				cur.UnrollCalls = map[string]int{}
			}
			cur.UnrollCalls[fields[1]] = k
			curSlot = nil
		case "modifies":
			for _, part := range splitTop(rest) {
				addClause(&cur.Modifies, part, ln+1)
			}
			curSlot = nil
		case "loop":
			// loop <n> invariant <expr> | loop <n> unroll <k>
			n, err := strconv.Atoi(fields[1])
			if err != nil || len(fields) < 4 {
				return nil, fmt.Errorf("%s:%d: bad loop clause", path, ln+1)
			}
			ls := cur.Loops[n]
			if ls == nil {
				ls = &LoopSpec{}
				cur.Loops[n] = ls
			}
			after := strings.TrimSpace(strings.TrimPrefix(strings.TrimSpace(strings.TrimPrefix(rest, fields[1])), fields[2]))
			switch fields[2] {
			case "invariant":
				addClause(&ls.Invariants, after, ln+1)
			case "decreases":
				addClause(&ls.Decreases, after, ln+1)
			case "unroll":
				k, err := strconv.Atoi(after)
				if err != nil {
					return nil, fmt.Errorf("%s:%d: bad unroll count", path, ln+1)
				}
				ls.Unroll = k
				curSlot = nil
			default:
				return nil, fmt.Errorf("%s:%d: bad loop clause kind %q", path, ln+1, fields[2])
			}
		case "inline":
			cur.Inline = true
			curSlot = nil
		case "trusted":
			cur.Trusted = true
			curSlot = nil
		case "nobody":
			cur.NoBody = true
			curSlot = nil
		case "pure":
			// the (scalar) result is a function of the receiver and the arguments only
			cur.Pure = true
			curSlot = nil
		case "props":
			cur.Props = append(cur.Props, fields[1:]...)
			curSlot = nil
		default:
			return nil, fmt.Errorf("%s:%d: %q not allowed in func contract", path, ln+1, kw)
		}
	}
	if err := flush(); err != nil {
		return nil, err
	}
	for _, f := range copyBack {
		f()
	}
	copyBack = nil
	return cf, nil
}

var copyBack []func()

// splitTop splits on commas that are not nested in parentheses/brackets.
func splitTop(s string) []string {
	var out []string
	depth := 0
	start := 0
	for i, r := range s {
		switch r {
		case '(', '[', '{':
			depth++
		case ')', ']', '}':
			depth--
		case ',':
			if depth == 0 {
				out = append(out, strings.TrimSpace(s[start:i]))
				start = i + 1
			}
		}
	}
	if t := strings.TrimSpace(s[start:]); t != "" {
		out = append(out, t)
	}
	return out
}

// findContractFiles returns contracts_verif.go files under the package directories.
func findContractFiles(dirs map[string]string) (map[string]string, error) {
	out := map[string]string{}
	for pkgPath, dir := range dirs {
		matches, _ := filepath.Glob(filepath.Join(dir, "contracts*_verif.go"))
		for _, m := range matches {
			out[m] = pkgPath
		}
	}
	return out, nil
}
