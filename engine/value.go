package main

// Symbolic values typed by Go types, and their flattening into SMT leaves.

import (
	"fmt"
	"go/token"
	"go/types"
	"strings"
)

type Value interface{ Type() types.Type }

// Sc is a scalar: bool, integer, float (opaque BV64), or a reference-like opaque
// (map, chan, func, unsafe.Pointer).
type Sc struct {
	T  *Term
	Ty types.Type
}

// StrV is a string: a 64-bit identity with uninterpreted length and bytes.
type StrV struct {
	S  *Term
	Ty types.Type
}

// SlV is a slice header over an element heap family.
type SlV struct {
	Arr, Off, Len, Cap *Term
	Ty                 types.Type
}

// PtrV is a pointer, represented by the location it designates.
type PtrV struct {
	L  Loc
	Ty types.Type
}

// StV is a struct value.
type StV struct {
	F  []Value
	Ty types.Type
}

// ArrV is a Go array value: each leaf of the element type lifted to an SMT array.
type ArrV struct {
	Leaves []*Term
	Ty     types.Type
}

// IfV is an interface value: dynamic type tag and a reference payload.
type IfV struct {
	Tag, Ref *Term
	Ty       types.Type
	// Conc, when set, is the concrete value this interface was just made from (known only
	// while the value stays in SSA registers; dropped by any merge or store). It allows static
	// dispatch and exact unboxing, also for interior pointers that have no plain reference.
	Conc Value
}

// TupV is a multi-value result.
type TupV struct {
	E  []Value
	Ty types.Type
}

// FnV is a statically known function or closure.
type FnV struct {
	Fn   interface{} // *ssa.Function
	Bind []Value
	Ty   types.Type
}

func (v Sc) Type() types.Type   { return v.Ty }
func (v StrV) Type() types.Type { return v.Ty }
func (v SlV) Type() types.Type  { return v.Ty }
func (v PtrV) Type() types.Type { return v.Ty }
func (v StV) Type() types.Type  { return v.Ty }
func (v ArrV) Type() types.Type { return v.Ty }
func (v IfV) Type() types.Type  { return v.Ty }
func (v TupV) Type() types.Type { return v.Ty }
func (v FnV) Type() types.Type  { return v.Ty }

type LocKind int

const (
	LCell LocKind = iota
	LHeap
	LElem
	LGlobal
	LArr // a whole backing array (of the element family) viewed as a Go array value
	// LChoice: one of two locations of the same type, selected by a condition (a pointer that
	// is the address of a struct field on one path and of a local on another). Path is applied
	// to whichever alternative is selected; Root is the type the alternatives designate.
	LChoice
)

// PathElem is a step into a composite: a struct field or an array index.
type PathElem struct {
	Field int   // valid if Idx == nil
	Idx   *Term // array index (BV64)
}

// Loc designates a storage location.
type Loc struct {
	Kind LocKind
	Cell *Cell
	Root types.Type // type of the root object (LHeap: pointee of the root pointer; LElem: element type; LCell/LGlobal: cell type)
	Ref  *Term      // LHeap object reference
	Arr  *Term      // LElem array reference
	Idx  *Term      // LElem absolute index in the backing array
	Glob string     // LGlobal name
	Path []PathElem
	Ty   types.Type // type of the designated location
	Sel  *Term      // LChoice: true selects AltA
	AltA *Loc
	AltB *Loc
}

// alt returns alternative a (or b) of a choice location with the choice's path applied.
func (l Loc) alt(first bool) Loc {
	a := *l.AltB
	if first {
		a = *l.AltA
	}
	a.Path = append(append([]PathElem{}, a.Path...), l.Path...)
	a.Ty = l.Ty
	return a
}

type Cell struct {
	Name string
	Ty   types.Type
	id   int
	Pos  token.Pos // declaration position of a source-named local
}

var cellCtr int

func newCell(name string, ty types.Type) *Cell {
	cellCtr++
	return &Cell{Name: name, Ty: ty, id: cellCtr}
}

type unsupported struct{ msg string }

func (u unsupported) Error() string { return u.msg }

func unsup(format string, args ...interface{}) {
	panic(unsupported{fmt.Sprintf(format, args...)})
}

// ---- type classification ----

func isNamedStruct(t types.Type) bool {
	_, ok := t.Underlying().(*types.Struct)
	return ok
}

func qual(p *types.Package) string { return p.Path() }

// typeKey gives the heap family key of a type.
func typeKey(t types.Type) string {
	switch u := t.(type) {
	case *types.Named:
		switch u.Underlying().(type) {
		case *types.Struct, *types.Interface:
			return types.TypeString(u, qual)
		}
		return typeKey(u.Underlying())
	case *types.Basic:
		switch u.Kind() {
		case types.Uint8:
			return "uint8"
		case types.Int, types.Int64:
			return "int64"
		case types.Uint, types.Uint64, types.Uintptr:
			return "uint64"
		case types.Int32:
			return "int32"
		case types.Uint32:
			return "uint32"
		}
		return u.Name()
	case *types.Slice:
		return "[]" + typeKey(u.Elem())
	case *types.Pointer:
		return "*" + typeKey(u.Elem())
	case *types.Array:
		return fmt.Sprintf("[%d]%s", u.Len(), typeKey(u.Elem()))
	case *types.Map:
		return "map[" + typeKey(u.Key()) + "]" + typeKey(u.Elem())
	case *types.Alias:
		return typeKey(types.Unalias(u))
	}
	return types.TypeString(t, qual)
}

func intInfo(t types.Type) (w int, signed bool, ok bool) {
	b, isb := t.Underlying().(*types.Basic)
	if !isb {
		return 0, false, false
	}
	switch b.Kind() {
	case types.Int8:
		return 8, true, true
	case types.Int16:
		return 16, true, true
	case types.Int32:
		return 32, true, true
	case types.Int64, types.Int:
		return 64, true, true
	case types.Uint8:
		return 8, false, true
	case types.Uint16:
		return 16, false, true
	case types.Uint32:
		return 32, false, true
	case types.Uint64, types.Uint, types.Uintptr:
		return 64, false, true
	case types.UntypedInt, types.UntypedRune:
		return 64, true, true
	}
	return 0, false, false
}

func isBool(t types.Type) bool {
	b, ok := t.Underlying().(*types.Basic)
	return ok && b.Info()&types.IsBoolean != 0
}
func isString(t types.Type) bool {
	b, ok := t.Underlying().(*types.Basic)
	return ok && b.Info()&types.IsString != 0
}
func isFloat(t types.Type) bool {
	b, ok := t.Underlying().(*types.Basic)
	return ok && b.Info()&(types.IsFloat|types.IsComplex) != 0
}

type Leaf struct {
	Name string
	Sort *Sort
	// for leaves that lie inside an array-typed struct field: the field path of that array,
	// the family key of its element type and the leaf name within the element. In the heap
	// such arrays live in the element family (so that slicing them aliases), at the embedded
	// reference embRef(struct family, field path, object).
	ArrField string
	ElemKey  string
	ElemLeaf string
}

var leafCache = map[string][]Leaf{}

// leavesOf flattens a type into named SMT leaves.
func leavesOf(t types.Type) []Leaf {
	key := types.TypeString(t, qual)
	if l, ok := leafCache[key]; ok {
		return l
	}
	var out []Leaf
	switch u := t.Underlying().(type) {
	case *types.Basic:
		switch {
		case isBool(t):
			out = []Leaf{{Name: "", Sort: BoolSort}}
		case isString(t):
			out = []Leaf{{Name: "", Sort: StrSort64}}
		case isFloat(t):
			out = []Leaf{{Name: "", Sort: BVSort(64)}}
		case u.Kind() == types.UnsafePointer:
			out = []Leaf{{Name: "", Sort: BVSort(64)}}
		case u.Kind() == types.UntypedNil:
			out = []Leaf{{Name: "", Sort: RefSort}}
		default:
			w, _, ok := intInfo(t)
			if !ok {
				unsup("leavesOf basic %s", t)
			}
			out = []Leaf{{Name: "", Sort: BVSort(w)}}
		}
	case *types.Slice:
		out = []Leaf{{Name: "arr", Sort: RefSort}, {Name: "off", Sort: IntSort}, {Name: "len", Sort: IntSort}, {Name: "cap", Sort: IntSort}}
	case *types.Pointer, *types.Map, *types.Chan, *types.Signature:
		out = []Leaf{{Name: "", Sort: RefSort}}
	case *types.Interface:
		out = []Leaf{{Name: "tag", Sort: BVSort(32)}, {Name: "ref", Sort: RefSort}}
	case *types.Struct:
		for i := 0; i < u.NumFields(); i++ {
			f := u.Field(i)
			_, fieldIsArray := f.Type().Underlying().(*types.Array)
			for _, l := range leavesOf(f.Type()) {
				n := f.Name()
				if l.Name != "" {
					n += "." + l.Name
				}
				nl := Leaf{Name: n, Sort: l.Sort, ArrField: l.ArrField, ElemKey: l.ElemKey, ElemLeaf: l.ElemLeaf}
				if fieldIsArray {
					// l comes from the array case below: ElemLeaf/ElemKey set, ArrField empty
					nl.ArrField = f.Name()
				} else if l.ArrField != "" {
					nl.ArrField = f.Name() + "." + l.ArrField
				}
				out = append(out, nl)
			}
		}
	case *types.Array:
		for _, l := range leavesOf(u.Elem()) {
			nl := Leaf{Name: l.Name, Sort: ArraySort(IntSort, l.Sort)}
			if l.ArrField == "" && l.ElemKey == "" {
				nl.ElemKey = typeKey(u.Elem())
				nl.ElemLeaf = l.Name
			} else {
				// arrays nested in arrays: kept as lifted leaves (not sliceable)
				nl.ElemKey = ""
			}
			out = append(out, nl)
		}
	case *types.Tuple:
		for i := 0; i < u.Len(); i++ {
			for _, l := range leavesOf(u.At(i).Type()) {
				out = append(out, Leaf{Name: fmt.Sprintf("%d.%s", i, l.Name), Sort: l.Sort})
			}
		}
	default:
		unsup("leavesOf %s", t)
	}
	leafCache[key] = out
	return out
}

var StrSort64 = BVSort(64)

// flatten converts a value to its leaves (same order as leavesOf(v.Type())).
func flatten(v Value) []*Term {
	switch x := v.(type) {
	case Sc:
		return []*Term{x.T}
	case StrV:
		return []*Term{x.S}
	case SlV:
		return []*Term{x.Arr, x.Off, x.Len, x.Cap}
	case PtrV:
		if x.L.Kind != LHeap || len(x.L.Path) != 0 {
			unsup("interior or local pointer used as a storable value (%s)", x.Ty)
		}
		return []*Term{x.L.Ref}
	case IfV:
		return []*Term{x.Tag, x.Ref}
	case StV:
		var out []*Term
		for _, f := range x.F {
			out = append(out, flatten(f)...)
		}
		return out
	case ArrV:
		return x.Leaves
	case TupV:
		var out []*Term
		for _, f := range x.E {
			out = append(out, flatten(f)...)
		}
		return out
	case FnV:
		// a function value stored in memory keeps only its identity (free variables are lost;
		// calling it after loading is a call about which nothing is known)
		return []*Term{App("fnref|"+sanitize(fmt.Sprint(x.Fn)), RefSort)}
	}
	unsup("flatten %T", v)
	return nil
}

// unflatten rebuilds a value of type t from leaves; returns remaining leaves.
func unflatten(t types.Type, ts []*Term) (Value, []*Term) {
	switch u := t.Underlying().(type) {
	case *types.Basic:
		if isString(t) {
			return StrV{ts[0], t}, ts[1:]
		}
		return Sc{ts[0], t}, ts[1:]
	case *types.Slice:
		return SlV{ts[0], ts[1], ts[2], ts[3], t}, ts[4:]
	case *types.Pointer:
		return PtrV{Loc{Kind: LHeap, Root: u.Elem(), Ref: ts[0], Ty: u.Elem()}, t}, ts[1:]
	case *types.Map, *types.Chan, *types.Signature:
		return Sc{ts[0], t}, ts[1:]
	case *types.Interface:
		return IfV{Tag: ts[0], Ref: ts[1], Ty: t}, ts[2:]
	case *types.Struct:
		sv := StV{Ty: t}
		for i := 0; i < u.NumFields(); i++ {
			var f Value
			f, ts = unflatten(u.Field(i).Type(), ts)
			sv.F = append(sv.F, f)
		}
		return sv, ts
	case *types.Array:
		n := len(leavesOf(t))
		return ArrV{append([]*Term{}, ts[:n]...), t}, ts[n:]
	case *types.Tuple:
		tv := TupV{Ty: t}
		for i := 0; i < u.Len(); i++ {
			var f Value
			f, ts = unflatten(u.At(i).Type(), ts)
			tv.E = append(tv.E, f)
		}
		return tv, ts
	}
	unsup("unflatten %s", t)
	return nil, nil
}

func fromLeaves(t types.Type, ts []*Term) Value {
	v, rest := unflatten(t, ts)
	if len(rest) != 0 {
		panic("fromLeaves: leftover leaves")
	}
	return v
}

// freshValue creates an unconstrained symbolic value of type t.
func freshValue(prefix string, t types.Type) Value {
	ls := leavesOf(t)
	ts := make([]*Term, len(ls))
	for i, l := range ls {
		n := prefix
		if l.Name != "" {
			n += "." + l.Name
		}
		ts[i] = Fresh(n, l.Sort)
	}
	return fromLeaves(t, ts)
}

// zeroValue is the Go zero value of type t.
func zeroValue(t types.Type) Value {
	ls := leavesOf(t)
	ts := make([]*Term, len(ls))
	for i, l := range ls {
		ts[i] = zeroOf(l.Sort)
	}
	return fromLeaves(t, ts)
}

// iteValue merges two values of the same type.
func iteValue(c *Term, a, b Value) Value {
	if c == True {
		return a
	}
	if c == False {
		return b
	}
	switch x := a.(type) {
	case PtrV:
		y, ok := b.(PtrV)
		if !ok {
			unsup("merge of pointer with non-pointer")
		}
		return PtrV{mergeLoc(c, x.L, y.L), x.Ty}
	case StV:
		y := b.(StV)
		out := StV{Ty: x.Ty, F: make([]Value, len(x.F))}
		for i := range x.F {
			out.F[i] = iteValue(c, x.F[i], y.F[i])
		}
		return out
	case TupV:
		y := b.(TupV)
		out := TupV{Ty: x.Ty, E: make([]Value, len(x.E))}
		for i := range x.E {
			out.E[i] = iteValue(c, x.E[i], y.E[i])
		}
		return out
	case FnV:
		y, ok := b.(FnV)
		if ok && x.Fn == y.Fn && len(x.Bind) == len(y.Bind) {
			out := FnV{Fn: x.Fn, Ty: x.Ty, Bind: make([]Value, len(x.Bind))}
			for i := range x.Bind {
				out.Bind[i] = iteValue(c, x.Bind[i], y.Bind[i])
			}
			return out
		}
		unsup("merge of distinct function values")
	}
	if _, ok := b.(PtrV); ok {
		unsup("merge of non-pointer with pointer")
	}
	la, lb := flatten(a), flatten(b)
	out := make([]*Term, len(la))
	for i := range la {
		out[i] = Ite(c, la[i], lb[i])
	}
	return fromLeaves(a.Type(), out)
}

func samePath(a, b []PathElem) bool {
	if len(a) != len(b) {
		return false
	}
	for i := range a {
		if (a[i].Idx == nil) != (b[i].Idx == nil) || (a[i].Idx == nil && a[i].Field != b[i].Field) {
			return false
		}
	}
	return true
}

func mergeLoc(c *Term, a, b Loc) Loc {
	if a.Kind != b.Kind || !samePath(a.Path, b.Path) || a.Kind == LChoice {
		if a.Ty != nil && b.Ty != nil && types.Identical(a.Ty, b.Ty) {
			ca, cb := a, b
			return Loc{Kind: LChoice, Sel: c, AltA: &ca, AltB: &cb, Root: a.Ty, Ty: a.Ty}
		}
		unsup("merge of pointers of different shapes")
	}
	out := a
	out.Path = make([]PathElem, len(a.Path))
	for i := range a.Path {
		out.Path[i] = a.Path[i]
		if a.Path[i].Idx != nil {
			out.Path[i].Idx = Ite(c, a.Path[i].Idx, b.Path[i].Idx)
		}
	}
	switch a.Kind {
	case LCell:
		if a.Cell != b.Cell {
			unsup("merge of pointers to different locals")
		}
	case LGlobal:
		if a.Glob != b.Glob {
			unsup("merge of pointers to different globals")
		}
	case LHeap:
		if typeKey(a.Root) != typeKey(b.Root) {
			unsup("merge of pointers into different heap families")
		}
		out.Ref = Ite(c, a.Ref, b.Ref)
	case LElem:
		if typeKey(a.Root) != typeKey(b.Root) {
			unsup("merge of pointers into different element families")
		}
		out.Arr = Ite(c, a.Arr, b.Arr)
		out.Idx = Ite(c, a.Idx, b.Idx)
	case LArr:
		out.Arr = Ite(c, a.Arr, b.Arr)
	}
	return out
}

// valuesEqual builds the Go == on two comparable values.
func valuesEqual(a, b Value) *Term {
	if pa, ok := a.(PtrV); ok {
		pb := b.(PtrV)
		return locEqual(pa.L, pb.L)
	}
	la, lb := flatten(a), flatten(b)
	var cs []*Term
	for i := range la {
		cs = append(cs, Eq(la[i], lb[i]))
	}
	return And(cs...)
}

func locEqual(a, b Loc) *Term {
	if a.Kind == LChoice {
		return Ite(a.Sel, locEqual(a.alt(true), b), locEqual(a.alt(false), b))
	}
	if b.Kind == LChoice {
		return Ite(b.Sel, locEqual(a, b.alt(true)), locEqual(a, b.alt(false)))
	}
	if a.Kind != b.Kind {
		// a nil heap pointer compared with a local address
		if a.Kind == LHeap && len(a.Path) == 0 && b.Kind != LHeap {
			return False
		}
		if b.Kind == LHeap && len(b.Path) == 0 && a.Kind != LHeap {
			return False
		}
		unsup("comparison of pointers of different kinds")
	}
	switch a.Kind {
	case LCell:
		return Bool(a.Cell == b.Cell && samePath(a.Path, b.Path))
	case LHeap:
		if !samePath(a.Path, b.Path) {
			return False
		}
		return Eq(a.Ref, b.Ref)
	case LElem:
		if !samePath(a.Path, b.Path) {
			return False
		}
		return And(Eq(a.Arr, b.Arr), Eq(a.Idx, b.Idx))
	case LGlobal:
		return Bool(a.Glob == b.Glob && samePath(a.Path, b.Path))
	case LArr:
		return Eq(a.Arr, b.Arr)
	}
	return False
}

func pathString(root types.Type, path []PathElem) (string, []*Term, types.Type) {
	var parts []string
	var idxs []*Term
	t := root
	for _, p := range path {
		switch u := t.Underlying().(type) {
		case *types.Struct:
			if p.Idx != nil {
				panic("index into struct")
			}
			parts = append(parts, u.Field(p.Field).Name())
			t = u.Field(p.Field).Type()
		case *types.Array:
			if p.Idx == nil {
				panic("field of array")
			}
			idxs = append(idxs, p.Idx)
			t = u.Elem()
		default:
			panic(fmt.Sprintf("path into %s", t))
		}
	}
	return strings.Join(parts, "."), idxs, t
}

func joinName(a, b string) string {
	if a == "" {
		return b
	}
	if b == "" {
		return a
	}
	return a + "." + b
}
