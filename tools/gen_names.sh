#!/bin/bash
# Regenerates /verif/names.json: the declared names (parameters, then source-named locals in
# declaration order) of every function under contract, as they are in /repo now. Run after
# adding or changing contracts. The engine uses the snapshot only to resolve a contract
# identifier that no longer exists: it takes the name now declared at the same position.
cd "$(dirname "$0")/.."
export GOPROXY=off GOSUMDB=off GOTOOLCHAIN=local GOFLAGS=-mod=mod
rm -f names.json
for p in $(python3 -c "import json;print(' '.join(c['property_id'] for c in json.load(open('MANIFEST.json'))['checks']))"); do
  ./bin/vcgen -repo /repo -verif "$(pwd)" -prop $p -names-out "$(pwd)/names.json" | grep '^names:'
done
