#!/usr/bin/env python3
"""Regenerates /verif/MANIFEST.json from /verif/claims.json (what is claimed per property)
and the hook commits of /repo. Run after changing claims.json."""
import json, subprocess, os, sys

V = os.path.dirname(os.path.dirname(os.path.abspath(__file__)))
claims = json.load(open(os.path.join(V, "claims.json")))
props = [json.loads(l) for l in open(os.path.join(V, "properties.jsonl"))]

def hook_commits():
    try:
        out = subprocess.check_output(["git", "-C", "/repo", "log", "--format=%H %s"], text=True)
    except Exception:
        return []
    return [l.split()[0] for l in out.splitlines() if " hooks:" in " " + l]

baseline = json.load(open("/root/.vp/BASELINE.json"))
checks, na = [], []
for p in props:
    pid = p["id"]
    c = claims.get(pid)
    if not c or c.get("not_applicable"):
        na.append({"property_id": pid, "reason": (c or {}).get("not_applicable", "not claimed yet: contracts for this property have not been brought to a discharging state")})
        continue
    checks.append({
        "property_id": pid,
        "quick_cmd": f"./check {pid} quick",
        "thorough_cmd": f"./check {pid} thorough",
        "evidence_file": f"/verif/evidence/{pid}.json",
        "replay_cmd_template": "./check --replay {path}",
        "engine": "vcgen",
        "level_claimed": {"category": {"bounded": "other"}.get(c.get("category", "proof"), c.get("category", "proof")), "text": c["level_text"], "design_ref": c.get("design_ref", "DESIGN.md §3")},
        "level_note": c["level_note"],
        "technique": c.get("technique", "contract-based deductive verification: weakest-precondition style VCs generated from go/ssa of the real code, contracts as //@ comments, discharged by z3/cvc5"),
    })

manifest = {
    "version": 1,
    "setup_cmd": "cd /verif/engine && GOFLAGS=-mod=vendor GOPROXY=off GOSUMDB=off GOTOOLCHAIN=local go build -o /verif/bin/vcgen .",
    "hooks": {
        "guard": "verif",
        "enable": "Go build tag: the verifier loads /repo with -tags=verif (contract files <pkg>/contracts_verif.go are comment-only and tagged //go:build verif); replays run go test -tags verif -overlay",
        "baseline_off_cmd": baseline["cmd"],
        "source_commits": hook_commits(),
        "add_only": True,
    },
    "engines": [{
        "name": "vcgen", "path": "/verif/engine",
        "serves_properties": [c["property_id"] for c in checks],
        "kind_free_text": "verification-condition generator for Go (go/ssa, naive form) with contracts in //@ comments; bit-vector/array SMT queries raced on z3 5.1.0, z3 4.8.12, cvc5 1.0; counterexample replay via go test -overlay",
    }],
    "checks": checks,
    "not_applicable": na,
    "notes": "See DESIGN.md. Every check regenerates its verification conditions from /repo's working tree on every run; known findings are listed in /verif/KNOWN_FINDINGS.",
}
json.dump(manifest, open(os.path.join(V, "MANIFEST.json"), "w"), indent=1)
print("claimed:", [c["property_id"] for c in checks], "not applicable:", [n["property_id"] for n in na])
