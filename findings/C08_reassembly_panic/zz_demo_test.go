package fragmentation

import (
	"testing"
	"time"

	"github.com/brewlin/net-protocol/pkg/buffer"
)

// Four 8-byte fragments of one datagram with two different "last" fragments must not crash
// the reassembly (they can only be dropped).
func TestVerifContradictoryLastFragments(t *testing.T) {
	defer func() {
		if r := recover(); r != nil {
			t.Fatalf("Process panicked: %v", r)
		}
	}()
	f := NewFragmentation(1<<20, 1<<19, 30*time.Second)
	frag := func(first, last uint16, more bool) {
		v := buffer.NewView(int(last-first) + 1)
		f.Process(7, first, last, more, v.ToVectorisedView())
	}
	frag(24, 31, true)
	frag(8, 15, false)
	frag(32, 39, false)
	frag(0, 7, true)
}
