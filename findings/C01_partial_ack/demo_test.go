package tcp_test

// Demonstration for finding C01 "partial ACK": when the peer acknowledges only part of a
// segment (legal TCP: acknowledgements need not fall on segment boundaries), the sender trims
// the acknowledged bytes from the segment in its retransmission queue but leaves the segment's
// sequence number where it was. The next retransmission therefore carries the REMAINING bytes
// at the OLD sequence number: the receiver, which already has the first part, gets the stream
// shifted - bytes are duplicated/misplaced, violating "nothing is lost from the middle,
// duplicated, reordered".
//
// Run (from /repo, portable pkg/sleep of the verif tag):
//   cp /verif/findings/C01_partial_ack/demo_test.go protocol/transport/tcp/zz_partial_ack_test.go
//   go test -tags verif -vet=off -count=1 -run TestPartialAckRetransmit ./protocol/transport/tcp
//   rm protocol/transport/tcp/zz_partial_ack_test.go

import (
	"bytes"
	"testing"
	"time"

	"github.com/brewlin/net-protocol/pkg/buffer"
	"github.com/brewlin/net-protocol/pkg/seqnum"
	tcpip "github.com/brewlin/net-protocol/protocol"
	"github.com/brewlin/net-protocol/protocol/header"
	"github.com/brewlin/net-protocol/protocol/transport/tcp/testing/context"
)

func TestPartialAckRetransmit(t *testing.T) {
	c := context.New(t, 1500)
	defer c.Cleanup()
	c.CreateConnected(789, 30000, nil)

	data := make([]byte, 100)
	for i := range data {
		data[i] = byte(i)
	}
	view := buffer.NewView(len(data))
	copy(view, data)
	if _, _, err := c.EP.Write(tcpip.SlicePayload(view), tcpip.WriteOptions{}); err != nil {
		t.Fatalf("Write failed: %v", err)
	}

	// the first transmission: all 100 bytes at IRS+1
	b := c.GetPacket()
	tcp := header.TCP(header.IPv4(b).Payload())
	if got, want := seqnum.Value(tcp.SequenceNumber()), c.IRS.Add(1); got != want {
		t.Fatalf("first transmission at seq %d, want %d", got, want)
	}
	if !bytes.Equal(tcp.Payload(), data) {
		t.Fatalf("first transmission carries wrong bytes")
	}

	// the peer acknowledges only the first 40 bytes
	const acked = 40
	c.SendPacket(nil, &context.Headers{
		SrcPort: context.TestPort,
		DstPort: c.Port,
		Flags:   header.TCPFlagAck,
		SeqNum:  790,
		AckNum:  c.IRS.Add(1 + acked),
		RcvWnd:  30000,
	})

	// ... and stays silent: the retransmission timeout must resend bytes 40..99 at IRS+1+40
	deadline := time.Now().Add(3 * time.Second)
	for time.Now().Before(deadline) {
		b = c.GetPacket()
		tcp = header.TCP(header.IPv4(b).Payload())
		if len(tcp.Payload()) == 0 {
			continue
		}
		seq := seqnum.Value(tcp.SequenceNumber())
		off := int(seq - c.IRS.Add(1)) // stream offset the receiver will attribute to the first payload byte
		if off < 0 || off+len(tcp.Payload()) > len(data) || !bytes.Equal(tcp.Payload(), data[off:off+len(tcp.Payload())]) {
			t.Fatalf("retransmission puts %d bytes starting with %v at stream offset %d (seq %d); the stream has %v there: bytes are shifted",
				len(tcp.Payload()), tcp.Payload()[:4], off, seq, data[off:off+4])
		}
		if off != acked {
			t.Fatalf("retransmission starts at stream offset %d, want %d (the first unacknowledged byte)", off, acked)
		}
		return
	}
	t.Fatalf("no retransmission seen")
}
