package udp_test

// Demonstration for finding C11/C06 "oversized UDP write": Write accepts payloads up to
// 65535 bytes, but 8 (UDP) + 20 (IPv4) header bytes must fit in the 16-bit length fields
// too. For a payload of 65530 bytes the stack emits ONE packet whose UDP length field is
// (65538 mod 65536) = 2 and whose IPv4 total length is (65558 mod 65536) = 22, although the
// packet carries 65530 payload bytes: the datagram is neither emitted "carrying exactly
// those bytes" (as decoded by any receiver) nor is the write refused.
//
// Run (from /repo, with the portable pkg/sleep of the verif tag):
//   cp /verif/findings/C11_udp_oversize/demo_test.go protocol/transport/udp/zz_oversize_test.go
//   go test -tags verif -vet=off -count=1 -run TestOversizedWrite ./protocol/transport/udp
//   rm protocol/transport/udp/zz_oversize_test.go

import (
	"testing"
	"time"

	tcpip "github.com/brewlin/net-protocol/protocol"
	"github.com/brewlin/net-protocol/protocol/header"
	"github.com/brewlin/net-protocol/protocol/network/ipv4"
)

func TestOversizedWrite(t *testing.T) {
	c := newDualTestContext(t, 65535+100)
	defer c.cleanup()
	c.createV6Endpoint(false)

	for _, size := range []int{65507, 65508, 65527, 65528, 65530, 65535} {
		payload := make([]byte, size)
		for i := range payload {
			payload[i] = byte(i)
		}
		n, _, err := c.ep.Write(tcpip.SlicePayload(payload), tcpip.WriteOptions{
			To: &tcpip.FullAddress{Addr: testV4MappedAddr, Port: testPort},
		})
		if err != nil {
			// refusing the write is fine
			t.Logf("size %d: write refused: %v", size, err)
			continue
		}
		if n != uintptr(size) {
			t.Errorf("size %d: wrote %d", size, n)
		}
		select {
		case p := <-c.linkEP.C:
			if p.Proto != ipv4.ProtocolNumber {
				t.Fatalf("unexpected protocol %v", p.Proto)
			}
			b := append(append([]byte{}, p.Header...), p.Payload...)
			ip := header.IPv4(b)
			actual := len(b)
			if int(ip.TotalLength()) != actual {
				t.Errorf("size %d: IPv4 total length field = %d but the packet has %d bytes", size, ip.TotalLength(), actual)
			}
			udp := header.UDP(b[ip.HeaderLength():])
			if int(udp.Length()) != actual-int(ip.HeaderLength()) {
				t.Errorf("size %d: UDP length field = %d but the datagram has %d bytes", size, udp.Length(), actual-int(ip.HeaderLength()))
			}
		case <-time.After(2 * time.Second):
			t.Fatalf("size %d: write succeeded but no packet was emitted", size)
		}
	}
}
