package ports

import (
	"math/rand"
	"testing"

	tcpip "github.com/brewlin/net-protocol/protocol"
)

// With every port rejected, PickEphemeralPort must have tried all 49536 ports of
// [16000, 65535] before reporting ErrNoPortAvailable.
func TestVerifEphemeralCoversRange(t *testing.T) {
	for seed := int64(1); seed <= 20; seed++ {
		rand.Seed(seed)
		seen := map[uint16]bool{}
		pm := NewPortManager()
		_, err := pm.PickEphemeralPort(func(p uint16) (bool, *tcpip.Error) {
			seen[p] = true
			return false, nil
		})
		if err != tcpip.ErrNoPortAvailable {
			t.Fatalf("unexpected error %v", err)
		}
		if len(seen) != 49536 {
			t.Fatalf("seed %d: only %d of 49536 ports were tested before giving up", seed, len(seen))
		}
	}
}
